#!/bin/bash
# run every stored seeded change against the check of its own property; summary in seeded/RESULTS.md
#   tools/seed_all.sh [--all]          only those without a recorded result (or all of them)
#   SHARD=i/K tools/seed_all.sh --all  the i-th of K interleaved shards (no summary); finish with tools/seed_results.py
#   ONLY="C02 C04" [W6=1] ...           restrict to the seeds of these properties (W6=1: plus every wave-6 seed)
cd /verif
I=0; K=1
if [ -n "${SHARD:-}" ]; then I=${SHARD%/*}; K=${SHARD#*/}; fi
n=0
for d in seeded/*/; do name=$(basename $d); p=${name%%_*}; [ -f checks/$(echo $p | tr A-Z a-z).py ] || continue
  if [ -n "${ONLY:-}" ]; then case " $ONLY " in *" $p "*) ;; *) case "$name" in *_w6_*) [ -n "${W6:-}" ] || continue ;; *) continue ;; esac ;; esac; fi
  n=$((n+1)); [ $((n % K)) -eq $I ] || continue
  if [ "${1:-}" != "--all" ] && grep -q "\"$p\": {" $d/meta.json 2>/dev/null; then continue; fi
  tools/seed_check.sh $name $p; done
[ -n "${SHARD:-}" ] || /venv/bin/python tools/seed_results.py
