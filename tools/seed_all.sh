#!/bin/bash
# run every stored seeded change against the check of its own property; summary in seeded/RESULTS.md
#   tools/seed_all.sh [--all]          only those without a recorded result (or all of them)
#   SHARD=i/K tools/seed_all.sh --all  the i-th of K interleaved shards (no summary); finish with tools/seed_results.py
cd /verif
I=0; K=1
if [ -n "${SHARD:-}" ]; then I=${SHARD%/*}; K=${SHARD#*/}; fi
n=0
for d in seeded/*/; do name=$(basename $d); p=${name%%_*}; [ -f checks/$(echo $p | tr A-Z a-z).py ] || continue
  n=$((n+1)); [ $((n % K)) -eq $I ] || continue
  if [ "${1:-}" != "--all" ] && grep -q "\"$p\": {" $d/meta.json 2>/dev/null; then continue; fi
  tools/seed_check.sh $name $p; done
[ -n "${SHARD:-}" ] || /venv/bin/python tools/seed_results.py
