#!/bin/bash
# run every stored seeded change against the check of its own property (if registered); summary in seeded/RESULTS.md
cd /verif
for d in seeded/*/; do n=$(basename $d); p=${n%%_*}; [ -f checks/$(echo $p | tr A-Z a-z).py ] || continue
  if [ "${1:-}" != "--all" ] && grep -q "\"$p\": {" $d/meta.json 2>/dev/null; then continue; fi
  tools/seed_check.sh $n $p; done
/venv/bin/python - <<'PY'
import json, glob, os
rows=[]
for f in sorted(glob.glob('/verif/seeded/*/meta.json')):
    m=json.load(open(f)); p=m['property']
    ck=m.get('checks',{}).get(p)
    first = m.get('reported_before_the_check_was_strengthened_for_wave_2')
    rows.append((m['name'], p, m.get('wave', 1), 'DETECTED' if ck and ck['detected'] else ('not detected' if ck else 'check not built yet'),
                 {None: 'see DESIGN 8.5', True: 'yes', False: 'no - check strengthened'}[first], ', '.join(ck['fingerprints']) if ck else ''))
with open('/verif/seeded/RESULTS.md','w') as f:
    f.write('# Seeded changes vs. the check of their own property (quick tier, current checks)\n\n'
            '| seeded change | property | wave | result now | reported as first delivered? | fingerprints |\n|---|---|---|---|---|---|\n')
    for r in rows: f.write('| %s | %s | %s | %s | %s | %s |\n' % r)
    f.write('\n%d seeded changes, %d detected by the current quick tier.\n' % (len(rows), sum(r[3] == 'DETECTED' for r in rows)))
print(open('/verif/seeded/RESULTS.md').read())
PY
