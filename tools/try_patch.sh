#!/bin/bash
# tools/try_patch.sh <patch file> <CHECK_ID> [tier] -- run a check against a scratch worktree of /repo HEAD + patch
set -u
PATCH=$1; ID=$2; TIER=${3:-quick}
WT=/tmp/wt/try_$$
git -C /repo worktree add -q --detach $WT HEAD || exit 2
git -C $WT apply $PATCH || { git -C /repo worktree remove --force $WT; echo "PATCH DOES NOT APPLY ON HEAD"; exit 2; }
mkdir -p /tmp/wt/ev /tmp/wt/rp
GNPY_REPO=$WT VERIF_EVIDENCE_DIR=/tmp/wt/ev VERIF_REPLAY_DIR=/tmp/wt/rp /verif/check $ID --tier $TIER > /tmp/wt/try_$ID.log 2>&1; RC=$?
git -C /repo worktree remove --force $WT
echo "patch=$PATCH check=$ID exit=$RC; fingerprints: $(grep -o 'fingerprint=[^ ]*' /tmp/wt/try_$ID.log | sort | uniq -c | tr '\n' ' ')"
