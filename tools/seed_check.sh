#!/bin/bash
# tools/seed_check.sh <seed dir name> <CHECK_ID> [tier]  -- run a check against a scratch worktree with the seeded patch
set -u
D=/verif/seeded/$1; ID=$2; TIER=${3:-quick}
WT=/tmp/wt/chk_$1_$ID; mkdir -p /tmp/wt/ev_$1
git -C /repo worktree add -q --detach $WT HEAD || exit 2
git -C $WT apply $D/patch.diff || { git -C /repo worktree remove --force $WT; echo "PATCH DOES NOT APPLY ON HEAD"; exit 2; }
mkdir -p /tmp/wt/ev
GNPY_REPO=$WT VERIF_EVIDENCE_DIR=/tmp/wt/ev_$1 VERIF_REPLAY_DIR=/tmp/wt/ev_$1/rp /verif/check $ID --tier $TIER > /tmp/wt/chk_$1_$ID.log 2>&1; RC=$?
git -C /repo worktree remove --force $WT; rm -rf /tmp/wt/ev_$1
FPS=$(grep -o 'fingerprint=[^ ]*' /tmp/wt/chk_$1_$ID.log | sort -u | sed 's/fingerprint=//' | tr '\n' ' ')
/venv/bin/python /verif/tools/seed_meta.py $1 $ID $RC $FPS
echo "seed=$1 check=$ID tier=$TIER exit=$RC $(grep -c '^VIOLATION' /tmp/wt/chk_$1_$ID.log) violation lines; fingerprints: $(grep -o 'fingerprint=[^ ]*' /tmp/wt/chk_$1_$ID.log | sort -u | tr '\n' ' ')"
