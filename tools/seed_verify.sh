#!/bin/bash
# tools/seed_verify.sh <PROP> <name>   -- confirm a seeded change delivered in /tmp/wt/<PROP>_out/<name>:
#   demo passes on the clean worktree, fails with the patch, test-suite failures unchanged; then store it.
set -u
P=$1; N=$2; WT=/tmp/wt/$P; SRC=/tmp/wt/${P}_out/$N; DST=/verif/seeded/${P}_$N
BASE_FAIL=6   # 5 always-fail + test_commit_authors_in_author_rst (fails because of the harness's own commits)
cd $WT || exit 2
git checkout -q -- . ; git apply --check $SRC/patch.diff || { echo "PATCH DOES NOT APPLY"; exit 2; }
cp $SRC/demo.py $WT/_demo.py
PYTHONPATH=$WT /venv/bin/python _demo.py >/tmp/wt/${P}_$N.clean.log 2>&1; C=$?
git apply $SRC/patch.diff
PYTHONPATH=$WT /venv/bin/python _demo.py >/tmp/wt/${P}_$N.patched.log 2>&1; M=$?
rm -f _demo.py
PYTHONPATH=$WT /venv/bin/python -m pytest -q -p no:cacheprovider -n ${NPYTEST:-8} --timeout=900 2>&1 | tail -20 > /tmp/wt/${P}_$N.pytest.log
SUMMARY=$(tail -1 /tmp/wt/${P}_$N.pytest.log)
git checkout -q -- . ; rm -f _demo.py
echo "demo clean exit=$C patched exit=$M ; pytest: $SUMMARY"
NF=$(echo "$SUMMARY" | grep -o '[0-9]* failed' | grep -o '[0-9]*'); NF=${NF:-0}
if [ $C -eq 0 ] && [ $M -ne 0 ] && [ "$NF" -le $BASE_FAIL ]; then
  mkdir -p $DST && cp $SRC/patch.diff $SRC/demo.py $DST/ && cp $SRC/notes.md $DST/notes.md 2>/dev/null
  grep FAILED /tmp/wt/${P}_$N.pytest.log | sort > $DST/pytest_failures.txt
  echo "$SUMMARY" > $DST/pytest_summary.txt
  echo KEPT $DST
else
  echo REJECTED; exit 1
fi
