#!/bin/bash
# tools/run_all.sh <tier> <seed...>  -- run every registered check, one line per (check, seed)
TIER=${1:-quick}; shift
cd "$(dirname "$0")/.."
for S in "${@:-0}"; do
  for i in $(seq -w 1 20); do
    T0=$(date +%s)
    OUT=$(VERIF_SEED=$S ./check C$i --tier $TIER 2>&1); RC=$?
    echo "C$i seed=$S tier=$TIER exit=$RC $(( $(date +%s) - T0 ))s known=$(echo "$OUT" | grep -c '^KNOWN-FINDING') viol=$(echo "$OUT" | grep -c '^VIOLATION') harness=$(echo "$OUT" | grep -c 'HARNESS-ERROR\|NONDETERMINISM\|Traceback')"
    if [ $RC -ne 0 ]; then echo "$OUT" | grep -v "^\s*$" | tail -5 | cut -c1-300; fi
  done
done
