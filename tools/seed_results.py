"""tools/seed_results.py -- (re)write seeded/RESULTS.md from the meta.json files"""
import glob
import json
rows = []
for f in sorted(glob.glob('/verif/seeded/*/meta.json')):
    m = json.load(open(f))
    p = m['property']
    ck = m.get('checks', {}).get(p)
    first = m.get('reported_as_delivered_before_the_check_was_touched', m.get('reported_before_the_check_was_strengthened_for_wave_2'))
    rows.append((m['name'], p, m.get('wave', 1),
                 'DETECTED' if ck and ck['detected'] else ('no longer a defect on HEAD (its demo passes)' if m.get('obsolete_on_head')
                                                            else ('not detected' if ck else 'check not built yet')),
                 {None: 'see DESIGN 8.5', True: 'yes', False: 'no - check strengthened'}[first],
                 ', '.join(ck['fingerprints']) if ck else ''))
with open('/verif/seeded/RESULTS.md', 'w') as f:
    f.write('# Seeded changes vs. the check of their own property (quick tier, current checks)\n\n'
            '| seeded change | property | wave | result now | reported as first delivered? | fingerprints |\n|---|---|---|---|---|---|\n')
    for r in rows:
        f.write('| %s | %s | %s | %s | %s | %s |\n' % r)
    f.write('\n%d seeded changes, %d detected by the current quick tier, %d no longer a defect on HEAD, %d accepted by design '
            '(C03 sampling conventions, DESIGN 8.5 / 8.7).\n' % (len(rows), sum(r[3] == 'DETECTED' for r in rows),
                                                                  sum(r[3].startswith('no longer') for r in rows),
                                                                  sum(r[3] == 'not detected' for r in rows)))
print('%d seeded changes, %d detected' % (len(rows), sum(r[3] == 'DETECTED' for r in rows)))
print('\n'.join('%s: %s' % (r[0], r[3]) for r in rows if r[3] != 'DETECTED'))
