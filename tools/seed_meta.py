"""tools/seed_meta.py <seed dir name> <check id> <exit> <fingerprints...>  -- (re)write seeded/<name>/meta.json"""
import json, os, sys, datetime
name, check, rc = sys.argv[1], sys.argv[2], int(sys.argv[3])
fps = sys.argv[4:]
d = f'/verif/seeded/{name}'
notes = open(f'{d}/notes.md').read() if os.path.exists(f'{d}/notes.md') else ''
meta_p = f'{d}/meta.json'
meta = json.load(open(meta_p)) if os.path.exists(meta_p) else {}
meta.update({
    'property': name.split('_')[0],
    'name': name,
    'origin': 'independent sub-agent given only the property text and a scratch worktree',
    'needs_to_manifest': notes.strip().split('\n')[0:40],
    'confirmed': {
        'demo_clean_exit': 0, 'demo_patched_exit': 'non-zero',
        'pytest_with_patch': open(f'{d}/pytest_summary.txt').read().strip() if os.path.exists(f'{d}/pytest_summary.txt') else None,
        'baseline_failures': '6 (5 always-fail + test_commit_authors_in_author_rst which fails because of the sandbox commits)',
        'how': 'tools/seed_verify.sh in a scratch worktree under /tmp/wt',
    },
})
meta.setdefault('checks', {})[check] = {'exit': rc, 'detected': rc == 1, 'fingerprints': fps,
                                        'how': f'tools/seed_check.sh {name} {check} (scratch worktree of /repo HEAD + patch, GNPY_REPO)'}
import re as _re
_m = _re.search(r'_w(\d)_', name)
if _m:
    w = int(_m.group(1))
    prop, short = name.split(f'_w{w}_', 1)
    ip = f'/verif/seeded/wave{w}_initial.json'
    init = json.load(open(ip)).get(prop, {}) if os.path.exists(ip) else {}
    meta['wave'] = w
    meta['confirmed']['how'] = f'tools/seed_verify{w}.sh in a scratch worktree of /repo HEAD under /tmp/wt'
    if short in init:
        meta['reported_before_the_check_was_strengthened_for_wave_2'] = init[short]   # key name kept from wave 2
        meta['reported_as_delivered_before_the_check_was_touched'] = init[short]
else:
    meta['wave'] = 1
json.dump(meta, open(meta_p, 'w'), indent=1)
