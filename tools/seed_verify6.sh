#!/bin/bash
# tools/seed_verify6.sh <PROP> <name>   -- wave 6: confirm a seeded change delivered in /tmp/wt/w6_<PROP>_out/<name> on a fresh
#   scratch worktree of /repo HEAD: demo passes clean, fails patched, test-suite failures unchanged; then store it.
set -u
P=$1; N=$2; SRC=/tmp/wt/w6_${P}_out/$N; DST=/verif/seeded/${P}_w6_$N
WT=/tmp/wt/sv_${P}_$N
BASE_FAIL=6   # 5 always-fail + test_commit_authors_in_author_rst (fails because of the sandbox's own commits)
git -C /repo worktree add -q --detach $WT HEAD || exit 2
cd $WT
git apply --check $SRC/patch.diff || { echo "PATCH DOES NOT APPLY"; cd /; git -C /repo worktree remove --force $WT; exit 2; }
cp $SRC/demo.py $WT/_demo.py
PYTHONPATH=$WT /venv/bin/python _demo.py >/tmp/wt/w6_${P}_$N.clean.log 2>&1; C=$?
git apply $SRC/patch.diff
PYTHONPATH=$WT /venv/bin/python _demo.py >/tmp/wt/w6_${P}_$N.patched.log 2>&1; M=$?
rm -f _demo.py
PYTHONPATH=$WT /venv/bin/python -m pytest -q -p no:cacheprovider -n ${NPYTEST:-8} --timeout=900 2>&1 | tail -20 > /tmp/wt/w6_${P}_$N.pytest.log
SUMMARY=$(tail -1 /tmp/wt/w6_${P}_$N.pytest.log)
cd /; git -C /repo worktree remove --force $WT
echo "$P $N: demo clean exit=$C patched exit=$M ; pytest: $SUMMARY"
NF=$(echo "$SUMMARY" | grep -o '[0-9]* failed' | grep -o '[0-9]*'); NF=${NF:-0}
NP=$(echo "$SUMMARY" | grep -o '[0-9]* passed' | grep -o '[0-9]*'); NP=${NP:-0}
if [ $C -eq 0 ] && [ $M -ne 0 ] && [ "$NF" -le $BASE_FAIL ] && [ "$NP" -ge 774 ]; then
  mkdir -p $DST && cp $SRC/patch.diff $SRC/demo.py $DST/ && cp $SRC/notes.md $DST/notes.md 2>/dev/null
  [ -f $SRC/patch_as_delivered.diff ] && cp $SRC/patch_as_delivered.diff $DST/
  grep FAILED /tmp/wt/w6_${P}_$N.pytest.log | sort > $DST/pytest_failures.txt
  echo "$SUMMARY" > $DST/pytest_summary.txt
  echo KEPT $DST
else
  echo REJECTED $P $N; exit 1
fi
