"""Bounded-exhaustive exploration engine (see DESIGN.md section 2).

Two exploration shapes, both exhaustive inside their bound:

* ``Space``  - deviation-bounded enumeration of configurations around base points.
* ``bfs``    - explicit-state breadth-first search over a real transition function, with canonical
               state de-duplication and history replay.

plus the worker pool, violation bookkeeping (replay files, known findings, determinism gate) and the
evidence writer.  Nothing here is random: VERIF_SEED only selects base points / rotates alphabets.
"""
from __future__ import annotations

import collections
import hashlib
import itertools
import json
import math
import multiprocessing as mp
import os
import signal
import subprocess
import sys
import time
import traceback

VERIF = os.path.dirname(os.path.dirname(os.path.abspath(__file__)))
REPO = os.environ.get('GNPY_REPO', '/repo')
NPROC = int(os.environ.get('VERIF_NPROC', '16'))


# ---------------------------------------------------------------------------------------------------
# canonical JSON / hashing
# ---------------------------------------------------------------------------------------------------
def jdump(obj) -> str:
    return json.dumps(obj, sort_keys=True, default=_default, separators=(',', ':'))


def _default(o):
    try:
        import numpy as np
        if isinstance(o, np.ndarray):
            return o.tolist()
        if isinstance(o, (np.floating,)):
            return float(o)
        if isinstance(o, (np.integer,)):
            return int(o)
        if isinstance(o, (np.bool_,)):
            return bool(o)
    except ImportError:  # pragma: no cover
        pass
    if isinstance(o, (set, frozenset)):
        return sorted(o, key=repr)
    if isinstance(o, tuple):
        return list(o)
    return repr(o)


def digest(obj) -> str:
    return hashlib.sha1(jdump(obj).encode()).hexdigest()[:16]


# ---------------------------------------------------------------------------------------------------
# deviation-bounded configuration space
# ---------------------------------------------------------------------------------------------------
class Space:
    """params: {name: [default, alt1, ...]}.  A *case* is a dict name -> value.

    ``enumerate(d)`` yields, simplest first, every assignment that differs from the base point in at most
    ``d`` parameters.  ``bases`` are extra base points given as partial dicts overriding the defaults;
    deviations are counted relative to the base in use.  ``constraint(case)`` may reject combinations that
    are not meaningful; rejected combinations are counted in ``self.filtered``.
    """

    def __init__(self, params: dict, bases=None, constraint=None):
        self.params = {k: list(v) for k, v in params.items()}
        self.names = list(self.params)
        self.bases = list(bases) if bases else [{}]
        self.constraint = constraint
        self.filtered = 0

    def base_point(self, base):
        pt = {k: v[0] for k, v in self.params.items()}
        pt.update(base)
        return pt

    def size(self, d, nbases=None):
        """closed-form number of assignments with <= d deviations from one base, times bases"""
        nb = len(self.bases) if nbases is None else nbases
        alts = [len(v) - 1 for v in self.params.values()]
        # elementary symmetric polynomials
        e = [1] + [0] * d
        for a in alts:
            for k in range(d, 0, -1):
                e[k] += e[k - 1] * a
        return nb * sum(e)

    def enumerate(self, d, bases=None):
        seen = set()
        for base in (self.bases if bases is None else bases):
            bp = self.base_point(base)
            for k in range(0, d + 1):
                for names in itertools.combinations(self.names, k):
                    domains = []
                    for n in names:
                        domains.append([v for v in self.params[n] if v != bp[n]])
                    for vals in itertools.product(*domains):
                        case = dict(bp)
                        for n, v in zip(names, vals):
                            case[n] = v
                        key = jdump(case)
                        if key in seen:
                            continue
                        seen.add(key)
                        if self.constraint is not None and not self.constraint(case):
                            self.filtered += 1
                            continue
                        case['_dev'] = k
                        yield case

    def full(self):
        for vals in itertools.product(*self.params.values()):
            case = dict(zip(self.names, vals))
            if self.constraint is not None and not self.constraint(case):
                self.filtered += 1
                continue
            yield case


def pick_bases(bases, seed, tier, n_quick=1):
    """quick tier explores n_quick base points selected by VERIF_SEED, thorough explores all"""
    if tier == 'thorough' or len(bases) <= n_quick:
        return list(bases)
    return [bases[(seed + i) % len(bases)] for i in range(n_quick)]


# ---------------------------------------------------------------------------------------------------
# explicit-state BFS
# ---------------------------------------------------------------------------------------------------
def bfs(init_histories, build, events, canon, step_check, depth, max_states=None):
    """Breadth-first search over histories.

    build(history) -> state            fresh real objects, history replayed
    events(state) -> list of events    finite menu
    canon(state) -> hashable
    step_check(history, event, prev_state, next_state) -> list of violation dicts (may be empty)
    Returns dict(states, transitions, max_depth, violations, capped).
    A state is the history reaching it; states are merged on canon().
    """
    seen = {}
    frontier = collections.deque()
    violations = []
    transitions = 0
    max_depth = 0
    capped = False
    for h in init_histories:
        st = build(list(h))
        k = canon(st)
        if k not in seen:
            seen[k] = list(h)
            frontier.append((list(h), 0))
    while frontier:
        hist, dep = frontier.popleft()
        if dep >= depth:
            continue
        base = build(hist)
        for ev in events(base):
            prev = build(hist)
            nxt_hist = hist + [ev]
            try:
                nxt = build(nxt_hist, prev=prev) if _accepts_prev(build) else build(nxt_hist)
            except Exception as exc:  # noqa
                violations.append({'fingerprint': f'exception:{type(exc).__name__}',
                                   'what': f'{type(exc).__name__}: {exc}', 'history': nxt_hist,
                                   'traceback': traceback.format_exc()})
                transitions += 1
                continue
            transitions += 1
            vs = step_check(hist, ev, prev, nxt)
            for v in vs:
                v.setdefault('history', nxt_hist)
            violations.extend(vs)
            k = canon(nxt)
            if k not in seen:
                if max_states is not None and len(seen) >= max_states:
                    capped = True
                    continue
                seen[k] = nxt_hist
                frontier.append((nxt_hist, dep + 1))
                max_depth = max(max_depth, dep + 1)
    return {'states': len(seen), 'transitions': transitions, 'max_depth': max_depth,
            'violations': violations, 'capped': capped}


def _accepts_prev(fn):
    try:
        return 'prev' in fn.__code__.co_varnames[:fn.__code__.co_argcount + fn.__code__.co_kwonlyargcount]
    except AttributeError:
        return False


# ---------------------------------------------------------------------------------------------------
# worker pool
# ---------------------------------------------------------------------------------------------------
class CaseTimeout(Exception):
    pass


def _alarm(signum, frame):
    raise CaseTimeout()


_WORKER = {}


def _init_worker(modname, horizon):
    os.environ.setdefault('PYTHONHASHSEED', '0')
    if REPO not in sys.path:
        sys.path.insert(0, REPO)
    if VERIF not in sys.path:
        sys.path.insert(0, VERIF)
    import logging
    logging.disable(logging.CRITICAL)
    import warnings
    warnings.filterwarnings('ignore')
    import numpy as np
    np.seterr(all='ignore')
    import gnpy
    assert os.path.realpath(gnpy.__file__).startswith(os.path.realpath(REPO) + os.sep), \
        f'gnpy imported from {gnpy.__file__}, expected under {REPO}'
    import importlib
    _WORKER['mod'] = importlib.import_module(modname)
    _WORKER['horizon'] = horizon
    signal.signal(signal.SIGALRM, _alarm)


def _run_one(case):
    mod = _WORKER['mod']
    hz = _WORKER['horizon']
    t0 = time.time()
    signal.setitimer(signal.ITIMER_REAL, hz)
    try:
        import warnings
        with warnings.catch_warnings():
            warnings.simplefilter('ignore')
            res = mod.run_case(case)
    except CaseTimeout:
        res = {'status': 'cap', 'violations': []}
    except Exception as exc:  # harness-level escape: the check did not classify it -> violation
        res = {'status': 'violation', 'violations': [{
            'fingerprint': f'unclassified-exception:{type(exc).__name__}',
            'what': f'{type(exc).__name__}: {exc}', 'traceback': traceback.format_exc()}]}
    finally:
        signal.setitimer(signal.ITIMER_REAL, 0)
    res.setdefault('violations', [])
    res.setdefault('status', 'violation' if res['violations'] else 'ok')
    res['wall'] = time.time() - t0
    for v in res['violations']:
        v.setdefault('case', case)
    res['case_digest'] = digest(case)
    return res


def run_pool(modname, cases, horizon=30.0, nproc=None, chunksize=None, budget_s=None):
    """run mod.run_case on every case; returns (results list in case order, stats)"""
    cases = list(cases)
    nproc = nproc or NPROC
    t0 = time.time()
    results = []
    budget_hit = False
    if not cases:
        return results, {'budget_hit': False}
    if nproc == 1 or len(cases) == 1:
        _init_worker(modname, horizon)
        for c in cases:
            results.append(_run_one(c))
            if budget_s and time.time() - t0 > budget_s:
                budget_hit = True
                break
        return results, {'budget_hit': budget_hit}
    ctx = mp.get_context('spawn')
    if chunksize is None:
        chunksize = max(1, min(64, len(cases) // (nproc * 8)))
    with ctx.Pool(nproc, initializer=_init_worker, initargs=(modname, horizon)) as pool:
        it = pool.imap(_run_one, cases, chunksize=chunksize)
        for r in it:
            results.append(r)
            if budget_s and time.time() - t0 > budget_s:
                budget_hit = True
                pool.terminate()
                break
    return results, {'budget_hit': budget_hit}


# ---------------------------------------------------------------------------------------------------
# report: violations, known findings, determinism gate, evidence
# ---------------------------------------------------------------------------------------------------
def load_known():
    p = os.path.join(VERIF, 'known_findings.json')
    if not os.path.exists(p):
        return []
    with open(p) as f:
        return json.load(f).get('findings', [])


def repo_commit():
    try:
        return subprocess.run(['git', '-C', REPO, 'rev-parse', 'HEAD'], capture_output=True, text=True).stdout.strip()
    except Exception:  # noqa
        return 'unknown'


class Report:
    def __init__(self, pid, tier, seed, modname):
        self.pid, self.tier, self.seed, self.modname = pid, tier, seed, modname
        self.t0 = time.time()
        self.cov = collections.OrderedDict(
            evaluations=0, distinct_nontrivial=0, rule='', samples=[], states=0, transitions=0,
            traces_validated_against_impl=0, exhaustive=False, bound=None, space_size=None,
            rejected=0, unjudged=0, caps_hit=0, distinct_outcomes=0)
        self.assumptions = []
        self.violations = []
        self.guard_failures = []
        self._nontrivial = set()
        self._outcomes = collections.Counter()
        self._states = set()
        self.tags = collections.Counter()

    # ---- accumulate pool results -------------------------------------------------------------
    def absorb(self, results, sample_every=None):
        n = len(results)
        step = sample_every or max(1, n // 4)
        for i, r in enumerate(results):
            self.cov['evaluations'] += r.get('evaluations', 1)
            self.cov['transitions'] += r.get('transitions', 0)
            self.cov['traces_validated_against_impl'] += r.get('traces', 0)
            st = r['status']
            if st == 'cap':
                self.cov['caps_hit'] += 1
            elif st == 'rejected':
                self.cov['rejected'] += 1
            elif st == 'unjudged':
                self.cov['unjudged'] += 1
            self.cov['unjudged'] += r.get('unjudged', 0)
            self.cov['rejected'] += r.get('rejected', 0)
            if 'states' in r:       # BFS worlds report their own state count
                self.cov['states'] += r['states']
            else:
                self._states.add(r['case_digest'])
            for k in r.get('nontrivial_keys', []):
                self._nontrivial.add(k)
            if r.get('nontrivial') is True:
                self._nontrivial.add(r['case_digest'])
            for o in r.get('outcomes', []):
                self._outcomes[o] += 1
            for t, c in (r.get('tags') or {}).items():
                self.tags[t] += c
            self.violations.extend(r['violations'])
            if i % step == 0 and len(self.cov['samples']) < 6 and r.get('sample') is not None:
                self.cov['samples'].append(r['sample'])

    def require(self, cond, msg):
        """vacuity guard: a failed guard makes the run a harness error, not a pass"""
        if not cond:
            self.guard_failures.append(msg)

    # ---- finish ----------------------------------------------------------------------------------
    def finish(self):
        cov = self.cov
        cov['states'] += len(self._states)
        cov['distinct_nontrivial'] = len(self._nontrivial)
        cov['distinct_outcomes'] = len(self._outcomes)
        cov['tags'] = dict(sorted(self.tags.items()))
        if cov['caps_hit']:
            cov['exhaustive'] = False
        known = [k for k in load_known() if k.get('property') == self.pid and k.get('status', 'open') == 'open']
        by_fp = collections.OrderedDict()
        for v in self.violations:
            by_fp.setdefault(v['fingerprint'], []).append(v)
        rc = 0
        new_count = 0
        known_lines = []
        out_lines = []
        for fp, vs in by_fp.items():
            vs.sort(key=lambda v: len(jdump(v.get('case', v.get('history', '')))))
            rep = vs[0]
            ok, why = determinism_gate(self.modname, rep)
            if not ok:
                print(f'NONDETERMINISM property={self.pid} fingerprint={fp}: {why}')
                self.guard_failures.append(f'nondeterministic violation {fp}: {why}')
                continue
            kn = next((k for k in known if k['fingerprint'] == fp), None)
            if kn is not None:
                known_lines.append(f'KNOWN-FINDING: property={self.pid} {kn["what"]} [{len(vs)} case(s), fingerprint={fp}]')
                continue
            new_count += len(vs)
            for v in vs[:3]:
                path = write_replay(self.pid, self.modname, v)
                out_lines.append(f'VIOLATION property={self.pid} replay={path}')
                out_lines.append(f'  fingerprint={fp} what={v.get("what", "")[:300]}')
            if len(vs) > 3:
                out_lines.append(f'  ... {len(vs) - 3} more case(s) with fingerprint={fp}')
            rc = 1
        for line in known_lines:
            print(line)
        for line in out_lines:
            print(line)
        cov['known_findings_reproduced'] = len(known_lines)
        if not cov['samples']:
            cov['samples'] = [{'note': 'no sample recorded'}]
        ev = {
            'property_id': self.pid, 'tier': self.tier, 'seed': self.seed, 'level': 'model_checking',
            'coverage': cov, 'assumptions': self.assumptions,
            'wall_s': round(time.time() - self.t0, 2), 'violations': new_count,
            'gnpy_commit': repo_commit(),
        }
        evdir = os.environ.get('VERIF_EVIDENCE_DIR') or os.path.join(VERIF, 'evidence')
        os.makedirs(evdir, exist_ok=True)
        with open(os.path.join(evdir, f'{self.pid}.json'), 'w') as f:
            json.dump(ev, f, indent=1, default=_default)
            f.write('\n')
        if self.tier == 'thorough':
            # the last thorough run is also kept aside: <id>.json is rewritten by every (usually quick) run
            os.makedirs(os.path.join(evdir, 'thorough'), exist_ok=True)
            with open(os.path.join(evdir, 'thorough', f'{self.pid}.json'), 'w') as f:
                json.dump(ev, f, indent=1, default=_default)
                f.write('\n')
        summary = {k: cov[k] for k in ('evaluations', 'states', 'transitions', 'traces_validated_against_impl',
                                       'distinct_nontrivial', 'distinct_outcomes', 'rejected', 'unjudged',
                                       'caps_hit', 'exhaustive', 'bound', 'space_size')}
        print(f'[{self.pid}] tier={self.tier} seed={self.seed} {jdump(summary)} wall={ev["wall_s"]}s')
        if cov['tags']:
            print(f'[{self.pid}] tags {jdump(cov["tags"])}')
        if rc == 0 and self.guard_failures:
            for g in self.guard_failures:
                print(f'HARNESS-ERROR property={self.pid} {g}')
            return 3
        return rc


def write_replay(pid, modname, v):
    d = os.path.join(os.environ.get('VERIF_REPLAY_DIR') or os.path.join(VERIF, 'replays'), pid)
    os.makedirs(d, exist_ok=True)
    body = {'property': pid, 'module': modname, 'fingerprint': v['fingerprint'], 'what': v.get('what'),
            'case': v.get('case'), 'history': v.get('history'), 'observed': v.get('observed'),
            'expected': v.get('expected'), 'traceback': v.get('traceback'), 'gnpy_commit': repo_commit(),
            'pythonhashseed': os.environ.get('PYTHONHASHSEED', '0')}
    path = os.path.join(d, digest([v['fingerprint'], v.get('case'), v.get('history')]) + '.json')
    with open(path, 'w') as f:
        json.dump(body, f, indent=1, default=_default)
    return path


def replay_case(modname, case):
    """run one case in this process, return sorted list of (fingerprint, what)"""
    _init_worker(modname, 600)
    r = _run_one(case)
    return sorted((v['fingerprint'], v.get('what', '')) for v in r['violations'])


def determinism_gate(modname, v):
    """re-run the violating case twice in fresh processes; both must reproduce the fingerprint"""
    if os.environ.get('VERIF_NO_GATE'):
        return True, ''
    case = v.get('case')
    if case is None:
        return True, 'no case to re-run'
    digs = []
    for _ in range(2):
        p = subprocess.run([sys.executable, '-m', 'mc.cli', '--_case-digest', modname],
                           input=jdump(case), capture_output=True, text=True, cwd=VERIF,
                           env=dict(os.environ, PYTHONHASHSEED=os.environ.get('PYTHONHASHSEED', '0'),
                                    PYTHONPATH=f'{REPO}:{VERIF}'))
        if p.returncode != 0:
            return False, f'replay process failed: {p.stderr[-400:]}'
        digs.append(next((ln[len('CASE-DIGEST '):] for ln in reversed(p.stdout.splitlines()) if ln.startswith('CASE-DIGEST ')),
                         p.stdout.strip()))
    fps = []
    for dg in digs:
        try:
            fps.append(json.loads(dg))
        except Exception:  # noqa
            return False, f'bad replay output {dg[:200]}'
    if fps[0] != fps[1]:
        return False, f'two replays differ: {fps[0]} vs {fps[1]}'
    if v['fingerprint'] not in [f[0] for f in fps[0]]:
        return False, f'replay does not reproduce {v["fingerprint"]}: got {fps[0]}'
    return True, ''


def isclose(a, b, rel=1e-9, abs_=0.0):
    return math.isclose(a, b, rel_tol=rel, abs_tol=abs_)
