"""setup_cmd: nothing to compile; verifies the engine on a toy space and that gnpy imports from /repo"""
import os
import sys

from mc import engine


def main():
    sp = engine.Space({'a': [0, 1, 2], 'b': ['x', 'y'], 'c': [True, False]})
    for d in range(0, 4):
        n = sum(1 for _ in sp.enumerate(d))
        assert n == sp.size(d), (d, n, sp.size(d))
    assert sp.size(3) == 12
    # BFS on a toy counter machine: states 0..5, events +1/+2, invariant never exceeds 5+2
    res = engine.bfs([[0]], lambda h: sum(h), lambda s: [1, 2] if s < 5 else [], lambda s: s,
                     lambda h, e, p, n: [], depth=10)
    assert res['states'] == 7 and res['violations'] == [], res
    import gnpy
    assert os.path.realpath(gnpy.__file__).startswith(os.path.realpath(engine.REPO) + os.sep), gnpy.__file__
    os.makedirs(os.path.join(engine.VERIF, 'evidence'), exist_ok=True)
    os.makedirs(os.path.join(engine.VERIF, 'replays'), exist_ok=True)
    print('selftest ok: engine enumerator/BFS consistent, gnpy imported from', gnpy.__file__)
    return 0


if __name__ == '__main__':
    sys.exit(main())
