"""./check <ID> [--tier quick|thorough] [--replay <file>]"""
import argparse
import importlib
import json
import os
import sys

from mc import engine


def main():
    if len(sys.argv) >= 3 and sys.argv[1] == '--_case-digest':
        case = json.loads(sys.stdin.read())
        # the code under test may print on stdout: the digest travels on its own marked line
        print('\nCASE-DIGEST ' + engine.jdump(engine.replay_case(sys.argv[2], case)))
        return 0
    ap = argparse.ArgumentParser()
    ap.add_argument('pid')
    ap.add_argument('--tier', default=os.environ.get('VERIF_TIER') or 'quick', choices=['quick', 'thorough'])
    ap.add_argument('--replay')
    args = ap.parse_args()
    seed = int(os.environ.get('VERIF_SEED') or 0)
    pid = args.pid.upper()
    modname = f'checks.{pid.lower()}'
    if args.replay:
        with open(args.replay) as f:
            body = json.load(f)
        hs = str(body.get('pythonhashseed', os.environ.get('PYTHONHASHSEED', '0')))
        if os.environ.get('PYTHONHASHSEED') != hs:
            # replay under the string-hash seed of the run that found the violation
            os.execve(sys.executable, [sys.executable, '-m', 'mc.cli'] + sys.argv[1:], dict(os.environ, PYTHONHASHSEED=hs))
        vs = engine.replay_case(body.get('module', modname), body['case'])
        if vs:
            for fp, what in vs:
                print(f'VIOLATION property={pid} replay={args.replay}')
                print(f'  fingerprint={fp} what={what[:400]}')
            return 1
        print(f'[{pid}] replay {args.replay}: no violation')
        return 0
    mod = importlib.import_module(modname)
    rep = engine.Report(pid, args.tier, seed, modname)
    mod.main(rep, args.tier, seed)
    return rep.finish()


if __name__ == '__main__':
    sys.exit(main())
