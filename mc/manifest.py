"""Regenerates /verif/MANIFEST.json from the table below:  /venv/bin/python -m mc.manifest"""
import json
import os

VERIF = os.path.dirname(os.path.dirname(os.path.abspath(__file__)))

BASELINE_CMD = ('cd /repo && /venv/bin/python -m pytest -ra -q -p no:cacheprovider --timeout=900 '
                '--continue-on-collection-errors')

# id -> (technique, level text, level note, design ref)
CHECKS = {
    'C01': (
        'explicit-state BFS over bookkeeping-operation sequences on real SpectralInformation objects against an exact '
        'rational (S,A,N) reference model; plus exhaustive receiver-recomputation histories',
        'Every sequence of up to 4 (quick) / 5 (thorough) bookkeeping operations (gain, loss, per-channel loss, ASE and '
        'NLI additions, band split/merge, comb addition, channel selection, split+noise on one band) from several initial '
        'spectra is executed on the real SpectralInformation; every reached state is compared with an exact rational '
        'model and checked for signal+ASE+NLI == total, shares in [0,1] and 1/GSNR = 1/OSNR_ASE + 1/SNR_NLI. Every '
        'element crossing of recorded real propagations and every sequence of <= 3 receiver recomputations is checked '
        'for the same identities.',
        'The reference model uses the implementation\'s float operands in exact arithmetic; magnitudes outside the '
        'operation menu are not covered; propagation part trusts the recorder (harness-side wrapping of __call__).',
        'DESIGN.md 3/C01'),
    'C14': (
        'explicit-state BFS over request histories on real OMS/Bitmap objects, set-of-slots reference model',
        'Every history of up to 3 (quick) / 4 (thorough) spectrum requests drawn from a menu of request shapes x paths '
        'on a 4-OMS, 48-slot world is executed through the real pth_assign_spectrum; after every transition the '
        'bitmaps are compared with a set model (no double booking, guard bands, first fit, user-fixed N/M honoured, '
        'blocked => state unchanged, occupancy == union of accepted). Exhaustive within the stated depth and menu.',
        'Path elements are minimal objects carrying oms_id; guard-band limits are read from the real Bitmap; '
        'values outside the request menu (other spacings, bit rates, map sizes) are not covered.',
        'DESIGN.md 3/C14'),
}

CHECKS['C15'] = (
    'exhaustive enumeration of amplifier-band profile assignments to the OMS of micro topologies + of bitmap-extent sets '
    'for align_grids, against an independent band-intersection / graph-walk model',
    'Every assignment (quick: deviation-bounded, thorough: full product on P2/P3) of 9 amplifier band profiles to the OMS '
    'of P2/P3/triangle networks is designed with the real designed_network and passed to build_oms_list; partition, '
    'ROADM-to-ROADM runs, mutual reverse pairing, common slot range and the exact FREE/UNUSABLE set are compared with an '
    'independent model. align_grids is run on every 2-/3-set of bitmaps over a grid of extents with pre-existing marks.',
    'Band edges are on the 6.25 GHz grid (true for the shipped multiband library); amplifier bands are read from the built '
    'elements; topologies have <= 3 ROADM sites.',
    'DESIGN.md 3/C15')

CHECKS['C06'] = (
    'complete product enumeration of ROADM equalisation configurations on designed micro line systems, every crossing kind x '
    'spectrum x input-level pattern through the real Roadm.__call__, oracle computed from the input documents',
    'All combinations of library policy, node policy and value, per-degree override kind and value (override of a different '
    'kind included) and ROADM impairment profiles (none / per-band max-loss / element-selected profile) are designed with the '
    'real designed_network; every add/express/drop crossing is driven with 4 spectra x 7 per-channel input-level patterns and '
    '4 recorded end-to-end propagations; each channel must leave with min(target+offset, input-path loss), never above its '
    'input, PMD/PDL in quadrature, noise shares untouched. All 64 combinations of equalisation keys at library/element level '
    'must give exactly one policy in force or a configuration error.',
    'Targets/offsets/levels are taken from small alphabets; impairment profiles cover the whole spectrum; reference carrier '
    '32 GBaud / 50 GHz.',
    'DESIGN.md 3/C06')

CHECKS['C03'] = (
    'deviation-bounded enumeration of fibre configurations x complete enumeration of small combs (all typings, all input '
    'permutations) against an independent scalar closed-form implementation evaluated over all sampling conventions',
    'For every fibre within 2 (quick) / 3 (thorough) deviations of the base over 7 fibre parameters and every comb of the '
    'comb alphabet (all typings of 1-4 channels from 3 channel types x 3 power patterns, bounded typings of 6/8 channels, '
    'full-band combs) the real NliSolver.compute_nli and Fiber.__call__ are run; the per-channel NLI must lie inside the '
    'envelope of the published closed form over the sampling conventions the paper leaves open, be non-negative, obey the '
    'cube law, be monotone under +1 dB / an added channel, and be identical for every permutation of the supplied channels; '
    'gamma at the reference frequency must be the configured value.',
    'alpha(f) and beta2(f) are read from the fibre accessors; a change that stays inside the convention envelope (e.g. taking '
    '|beta2| before instead of after the cut/pump average) is not distinguishable from a legitimate convention choice and is '
    'not reported.',
    'DESIGN.md 3/C03')

CHECKS['C04'] = (
    'deviation-bounded enumeration of amplifier operating points over every single-band model of the shipped libraries, real '
    'Edfa.__call__, independent re-implementation of the clamp, h f B NF and the documented NF models',
    'For every non-multiband amplifier model of example-data/eqpt_config.json and the vendored test library, every operating '
    'point within 3 (quick) / 4 (thorough) deviations over gain (below gain_min .. above flatmax), tilt, input/output VOA, comb '
    '(1..95 channels, 50/75/100 GHz grids, mixed), input level (-35..+5 dBm/ch, saturating), power shape, input noise and '
    'out-of-band / band-straddling channels is driven through the real Edfa.__call__; effective gain == min(set gain, p_max - '
    'Pin), total gain, added ASE == h f B NF(model) per channel, channel set == in-band channels; NF-vs-gain sweeps check end '
    'points, monotonicity and the dB-for-dB rule below gain_min.',
    'NF models are re-implemented from the documentation and library documents; OpenROADM NF is judged on uniform grids only; '
    'with tilt/ripple the total gain is compared within 0.02 dB (the code solves the tilted profile in one step).',
    'DESIGN.md 3/C04')
CHECKS['C05'] = (
    'complete product over single-fibre configurations, every order of span lists on designed paths, deviation-bounded '
    'enumeration of Raman solver settings; oracles computed from the input documents',
    '(a) all 2400 combinations of length, loss (scalar / per-frequency table in ascending, descending, 2-point form), lumped '
    'losses, pad, connectors and comb: attenuation == loss budget (1e-9 dB), CD = D L, latency = L n/c, PMD = coef sqrt(L). '
    '(b) 10 span-set x amplifier-sequence combinations, every permutation of the span list, designed and propagated: totals == '
    'sums (CD, latency) / root-sum-squares (PMD, PDL incl. amplifiers and ROADMs) from the documents and identical over orders. '
    '(c) Raman solver settings within 3 deviations (quick) / the full product (thorough): low-power limit == loss budget, perturbative vs '
    'numerical within the explicit-Euler bias bound, lumped losses once, counter-propagating pumps only add gain.',
    'Solver step <= 2 km (coarser steps make the numerical method itself inaccurate); tolerances for Raman comparisons are the '
    'analytic discretisation bounds stated in the check source.',
    'DESIGN.md 3/C05')

CHECKS['C02'] = (
    'deviation-bounded (quick) / full-product (thorough) enumeration of designed micro networks x every simple '
    'transceiver-to-transceiver path, real request.propagate recorded per element',
    'Over site graph, per-link chain (plain, multi-span, fused, Raman fibre, split fibre, user amplifiers, 500 m fibre), '
    'equipment library (test, example, OpenROADM v5), simulation parameters (Raman off/on x GN / GGN approx / GGN spectrally '
    'separated / numerical Raman), power or gain mode, ROADM policy and launched spectrum, every designed network is '
    'propagated over every simple path; at every element crossing and for every channel ASE/S, NLI/S and their sum must not '
    'decrease, ROADM/Fused/transceiver must leave the shares bitwise unchanged, an amplifier must keep NLI/S and a plain fibre '
    'ASE/S. Single Raman/plain fibres are also crossed with 186-203 THz combs (channels below and above the pumps).',
    'Observation by wrapping element __call__ in the harness; a RamanFiber with the Raman flag off and a one-channel comb with '
    'the GGN methods are outside the supported configurations and skipped (counted).',
    'DESIGN.md 3/C02')

CHECKS['C07'] = (
    'complete enumeration of carrier-order permutations over a validity alphabet of carrier lists, and of band-edge spectra '
    'x carrier orders over every simple path of single-, two-, three-band and mixed networks, against an independent band model',
    'Part 1: 648 (thorough: + 5-channel typings) carrier lists (every typing of 3 and 4 touching channels from 4 channel types, every one-step overlap, baud>slot '
    'variants, 5-channel lists, equal frequencies) x all permutations x both constructors: invalid lists raise SpectrumError in '
    'every order, valid lists build the identical spectrum in every order. Part 2: 7 designed networks (C auto-designed, C+L, '
    'C+L+S, C then C+L, narrow-C preamp, C+L+S then C+L, SI wider than the amplifiers) x every simple path x spectra with '
    'channels exactly on / inside / across / outside each edge of the path\'s common bands x reversed / interleaved / rotated / transposed carrier orders: the set after the '
    'filter equals the independent band model, the launched identity tuples are found unchanged at every recorded snapshot and '
    'at the receiver, results are equal for all orders.',
    'Bands are read from the built amplifier elements; the three-band amplifier is a synthetic library entry (S band); networks '
    'have <= 3 ROADM sites.',
    'DESIGN.md 3/C07')

CHECKS['C08'] = (
    'deviation-bounded enumeration of micro topologies x Span configurations through the real loaders and designed_network, '
    'structural oracle on the designed graph',
    'Every topology/configuration within 2 (quick) / 3 (thorough) deviations of several base points over site graph (4), chain '
    'of the first link in both directions (25 chains: fibres from 50 m to 1500 km, spliced fibres, fused junctions incl. two in a '
    'row, user amplifiers with full / partial settings, lumped losses, input pad, per-frequency loss, Raman spans), Span '
    'padding / EOL / max_length / connector defaults, power or gain mode and library is designed; the oracle requires complete '
    'amplifiers and fibres, padding on every amplifier-to-amplifier span, long fibres split into equal spans preserving length, '
    'attenuation, lumped losses and pad, no fibre-fibre / ROADM-fibre adjacency, one-in/one-out line elements, unique names and '
    'unchanged reachability; any exception other than the documented "no amplifier satisfies" rejection is a violation.',
    'Span settings with padding/0.2 >= max_length contradict each other and are not explored; topologies have <= 4 ROADM sites.',
    'DESIGN.md 3/C08')

CHECKS['C09'] = (
    'deviation-bounded enumeration of topology x Span-rule configurations through designed_network; budget equation, '
    'documented rule and reproduction by propagating the design comb under the recorder',
    'Over site graph, link chains (incl. operator-set gain / offset / VOA, saturating operator values), delta_power_range '
    '(aligned and non-aligned bounds, zero range), slope, reference span loss, VOA optimisation, SI power, ROADM target, padding, '
    'EOL, max_length, connectors, power/gain mode and library, within 2 (quick) / 3 (thorough) deviations: every amplifier of '
    'every OMS must satisfy gain = loss since the previous amplifier + in_voa + offset - previous net offset; where the operator '
    'set nothing the offset after the VOA equals the documented rule (slope x (next span loss - ref), rounded, clamped, 0 before a '
    'ROADM) reduced only for saturation/capability; operator offsets and gains are kept unless they saturate and never reduced '
    'more than needed; propagating the design comb reproduces the design power at every amplifier and ROADM output.',
    'Span losses are read from the designed elements (C05 ties them to the documents); rounding ties are unjudged; Raman, '
    'multiband and per-frequency-loss spans are not judged here.',
    'DESIGN.md 3/C09')

CHECKS['C10'] = (
    'complete enumeration of synthetic equipment libraries (subsets of 9 amplifier archetypes, two NF data sets under the same '
    'names, both design orders in one process) x deviation-bounded operating points through designed_network',
    'For every library made of 1-3 (thorough: 1-4) of 9 archetypes (low/medium/high gain, low p_max, fixed gain, quiet but not '
    'allowed for design, L-band, noisy, Raman hybrid) and every operating point within 1 (quick) / 2 (thorough) deviations over '
    'span length, fibre loss coefficient (scalar below/above the Raman limit, per-frequency tables), design power, channel count, '
    'restriction source (none, amplifier variety list, ROADM booster / preamp lists, combinations) and topology, every '
    'auto-selected amplifier must be permitted by the stated precedence, cover the design band, be a Raman model only after a '
    'fibre whose every loss coefficient is below the limit, deliver the required gain and power whenever a permitted in-range '
    'model can, and have the lowest noise figure among those. Each case designs twice in one process with different noise data '
    'under the same model names, so results that depend on earlier designs are caught reproducibly.',
    'Required gain/power come from the C09 budget model, noise figures from the C04 models; operating points within 1e-6 dB of a '
    'capability boundary and rounding ties are unjudged; OpenROADM models (NF depends on input power) are not in the archetypes.',
    'DESIGN.md 3/C10')

CHECKS['C17'] = (
    'deviation-bounded enumeration of topology x Span x simulation-parameter configurations, each explored as a history of '
    'design / design-again / 1-3 export-reload-redesign rounds on the real code with a differential oracle',
    'For every configuration within 2 (quick) / 3 (thorough) deviations over site graph, link chains (incl. 1000 km fibres split '
    'into non-integer spans, fused spans, operator VOA/offset/gain, lumped losses, per-frequency loss, Raman spans), Span settings '
    '(padding, EOL, max_length, connectors, delta-power range, VOA optimisation), power/gain mode, library and the simulation '
    'parameters in force (7 settings incl. every NLI/Raman field non-default): two designs of the same input are identical; each '
    'round network_to_json -> json -> yang_to_legacy -> network_from_json -> designed_network reproduces the previous export '
    '(numbers within 2e-6, everything else exactly); propagation on the reloaded design gives the same receiver figures; the '
    'process-wide SimParams are attribute-wise identical before and after every completed design.',
    'Designs that abort are judged by C08 only. One open known finding: EOL margin is added again at every redesign (see '
    'known_findings.json); such cases are re-judged on an EOL-compensated input so that other differences are not masked.',
    'DESIGN.md 3/C17')

CHECKS['C11'] = (
    'exhaustive enumeration of site graphs (graph atlas, 3-5 sites) x source/destination pairs x ordered include lists x hop '
    'types through the real route computation, against brute-force enumeration of all simple paths',
    'For every connected graph on 3-5 ROADM sites (quick: all on 3-4 and a quarter of those on 5) x 3 length assignments (ties, '
    'distinct, long direct link) x link styles (plain, in-line amplifier, fused, mixed), every ordered transceiver pair and '
    'every ordered include list of <= 2 (thorough: 3) nodes from {ROADMs, fibres / amplifiers / fused of two links, auto-inserted '
    'amplifiers, an unknown name} with all-STRICT, all-LOOSE and mixed hop types is routed by requests_from_json, '
    'correct_json_route_list and compute_path_dsjctn on the designed network with its OMS list. The route must start/end at the '
    'right transceivers, follow existing links, repeat nothing, cross the include nodes in order and be the shortest such route; '
    'unsatisfiable STRICT lists must block with NO_PATH_WITH_CONSTRAINT, unsatisfiable LOOSE lists must return the '
    'unconstrained shortest route, unknown STRICT nodes raise ServiceError; the reverse path mirrors the ROADM sequence.',
    'Jointly unsatisfiable mixed LOOSE/STRICT lists are unjudged; parallel links are not in the alphabet.',
    'DESIGN.md 3/C11')

CHECKS['C12'] = (
    'exhaustive enumeration of two-request synchronisation groups (every ordered pair of source/destination pairs x include '
    'variants) and of group structures over site graphs from the graph atlas, brute-force oracle over all pairs of simple paths',
    'For connected graphs on 3-5 ROADM sites x length assignments x link styles, every ordered pair of (source, destination) '
    'pairs forms a disjunction group with every combination of include variants (none, STRICT ROADM, LOOSE ROADM, STRICT fibre '
    'inside an OMS) on both requests and is routed by the real front half of planning(); soundness (DisjunctionError, or '
    'pairwise link-disjoint valid STRICT-respecting paths) and completeness (a solution is found iff brute force over all '
    'pairs of simple paths finds one) are judged. Triples, overlapping pairs (shared request first / last), chains, duplicated '
    'groups and pair + unrelated request are judged for soundness.',
    'A link is the unordered pair of consecutive ROADMs; parallel links are not in the alphabet; completeness is claimed for a '
    'single pair only, as in the property.',
    'DESIGN.md 3/C12')

CHECKS['C13'] = (
    'deviation-bounded enumeration of line system x receiver-noise x penalty-table x threshold-pattern x request configurations '
    'through the real planning(), independent receiver model on the recorder\'s last snapshot + differential oracle for '
    'automatic mode selection',
    'Within 2 (quick) / 3 (thorough) deviations over line system (incl. negative-dispersion and dispersion-slope fibres), '
    'asymmetric reverse direction, ROADM add/drop noise (scalar 30/38/100 dB or per-band add/drop profiles), system margin, '
    'transmitter OSNR, penalty tables placed around the measured CD/PMD/PDL (inside, above the last breakpoint, below the first, '
    'per-channel steep), threshold pattern of a 5-mode transceiver placed +-0.3 / +-3 dB around the measured metric, request '
    'spacing (fits all / some / one / no mode), bidirectionality and a mode with an equalisation offset: every fixed-mode '
    'request must be blocked iff min over channels of (receiver GSNR in 0.1 nm with tx OSNR and each add/drop once - '
    'interpolated penalties, infinite outside the table) < OSNR + margin in a required direction; the automatic request must '
    'return the highest-ranked fitting mode that is feasible, NO_FEASIBLE_MODE or NO_FEASIBLE_BAUDRATE_WITH_SPACING otherwise; '
    'receiver figures must equal the model (no accumulation over the mode loop).',
    'Line GSNR and impairments are read from the recorder (C01-C06 judge them); metrics within 0.006 dB of the threshold are '
    'unjudged. One open known finding (modes of one baud rate with different equalisation offsets).',
    'DESIGN.md 3/C13')

CHECKS['C16'] = (
    'exhaustive enumeration of ordered request batches (and two-batch histories on one network object) from a request menu '
    'through the real planning(), differential oracle against each request computed alone',
    'On 3 designed networks (line, triangle, line with low-p_max amplifiers) every ordered batch of 1-2 requests and a sixth '
    '(thorough: all) of the ordered triples (thorough: + sampled quadruples) from a menu of 8 mutually non-aggregatable requests '
    '(light, dense comb that saturates shared amplifiers, automatic mode, bidirectional, dense bidirectional, blocked by a STRICT '
    'include, no feasible mode, spacing below every mode), 16 two-batch histories on the same network object and API-built '
    'request batches without explicit route lists: each request\'s route, mode, per-channel GSNR/OSNR of both directions and '
    'non-spectrum blocking reason must equal its solo result; network_to_json and every amplifier setting must be unchanged '
    'after each batch. A vacuity guard requires that the dense requests really clamp amplifier gains.',
    'Spectrum slots and spectrum blocking reasons are excluded as the property allows; networks have 3 ROADM sites.',
    'DESIGN.md 3/C16')

CHECKS['C19'] = (
    'exhaustive enumeration of ordered batches of outcome kinds through planning() -> results_to_json -> jsontocsv, independent '
    'response model built from the returned requests and propagated paths',
    'Every single outcome, every ordered pair and triple (thorough: quadruple) of the outcome kinds (served, '
    'served bidirectional, served with an N/M list, aggregated pair, aggregated triple, NO_PATH_WITH_CONSTRAINT, '
    'NO_FEASIBLE_BAUDRATE_WITH_SPACING, NO_FEASIBLE_MODE, MODE_NOT_FEASIBLE forward / reverse-only, NO_SPECTRUM, '
    'NOT_ENOUGH_RESERVED_SPECTRUM) on an asymmetric network with a 2 dB system margin and penalty tables: one response per '
    '(joined) id with summed bandwidth, hop list == computed path, transponder type/mode, N/M labels == assignment, every metric '
    '== the receiver attribute of the right direction rounded to 2 decimals, blocked requests carry the reason and no labels, '
    'bidirectional ones a z-a block from the reverse receiver; the CSV parsed back states the same values, threshold column == mode '
    'OSNR + margin, pass flag consistent; jsontocsv is also driven with each served response whose lowest SNR is moved to 5 '
    'values around the margin-inclusive threshold.',
    'The menu entries are verified to produce the outcome they were built for; one 3-site network.',
    'DESIGN.md 3/C19')

CHECKS['C18'] = (
    'exhaustive enumeration of combinations of document mutators (optional structures, per-field value alphabets from the '
    'declared precision) on base documents of every kind through the real converters, libyang validation and loaders',
    'All combinations of <= 2 (quick) / 3 (thorough) of 31 topology, 18 equipment and 10 service mutators, 5 shipped equipment '
    'libraries, spectrum and simulation-parameter documents: legacy_to_yang output validates, both conversions are idempotent, '
    'L2Y(Y2L(Y)) == Y, the converted-back document equals the original under a pinned copy of the declared fraction digits '
    '(rounded, not truncated; lists, degrees and bands in order), the equipment objects / designed network / request objects / '
    'carriers built from both forms are equal, and every alias of an Edfa, Transceiver or mode reports its own name with '
    'identical parameters.',
    'Generated documents put list keys first (libyang JSON parser); values are chosen representable at the declared precision '
    'plus over-precise ones for the rounding rule; documents use structures the YANG models know.',
    'DESIGN.md 3/C18')

CHECKS['C20'] = (
    'exhaustive enumeration of combinations of workbook mutators and of service-row subsets, every workbook really written as '
    '.xlsx and also fed through an in-memory xlrd-API object, reference model of docs/excel.rst on the produced JSON graph',
    'All combinations of <= 3 (quick) / 4 (thorough) of 21 workbook mutators (two-sided / partially two-sided link columns, zero '
    'cells, float lengths, blank / unknown site type, ILA of degree 1 / 3, FUSED of degree 3, reversed link order, Eqpt rows on '
    'ROADM / ILA sites one- and two-sided and towards either neighbour, fused booster, Roadms rows, restrictions, coordinates), 10 '
    'error workbooks in 2 contexts, service sheets with every 1-3 (and part / all of the 4-) row subsets of 12 row kinds plus 5 '
    'invalid rows on two base workbooks: sites, fibres (values, west defaulting to east), wiring, one-in/one-out, Eqpt settings on '
    'the amplifier facing the named neighbour (checked through the graph), per-degree targets and restrictions match the sheet; '
    'error workbooks raise NetworkTopologyError; the JSON loads and auto-designs; service rows become requests with converted '
    'units, route, strictness and synchronisation entries; the .xlsx and xlrd-API paths give identical JSON.',
    'The value produced for a blank Con_in/Con_out/PMD cell is not judged; the xlrd file parser itself is not exercised on '
    'generated inputs (no .xls writer offline).',
    'DESIGN.md 3/C20')

ALL = [f'C{i:02d}' for i in range(1, 21)]
NOT_BUILT_REASON = 'check not built yet in this round (planned, see DESIGN.md section 3); not claimed until it runs'


# additions made after the seeded-change waves 2 and 3 (DESIGN.md 8.6 / 8.7), appended to the level text
ADDENDA = {
    'C01': 'Three-band split/merge and multi-band propagations in which one band carries a single channel are included.',
    'C02': 'Includes negative-dispersion fibres, a ROADM profile with every documented impairment field, and two-comb histories on one RamanFiber object.',
    'C03': 'Includes simulation-parameter variants the analytic method must ignore, the dispersion-to-beta2 conversion, comb sequences with the same ends and count but other inner placement on one fibre object, and order independence through both constructors.',
    'C04': 'Includes dual-stage models made of polynomial-NF stages and amplifier objects that have already amplified another comb.',
    'C05': 'Includes fibres used before, Raman fibres with an input pad and unequal connectors, and multi-band paths whose per-band amplifiers have different PMD/PDL.',
    'C06': 'Includes carriers supplied out of frequency order, equally sized spectra in different loss ranges crossing one ROADM object one after the other, and libraries listing their impairment profiles in both orders with an explicit choice of profile id 0.',
    'C07': 'Includes a wide single-band section in front of a multi-band section, a second spectrum with another band split on the same element objects, and one request object propagated in both directions.',
    'C08': 'Includes site-dependent design bands (two-band and single-band ROADMs mixed) and the consistency of every designed multi-band amplifier with its declared type.',
    'C09': 'Includes an operator VOA on the last amplifier of a degree followed by further degrees of the same ROADM.',
    'C10': 'Includes a model cut at the high band edge, a model whose NF lies inside another model\'s extended-gain window, an operator VOA on an automatic amplifier and an amplifier slot behind a fused element.',
    'C11': 'Includes include lists along every 2-3 (thorough: 4) link walk (loops), ordered ROADM triples, the destination closing the list, near-tie lengths over split fibres and API-built requests in sequence.',
    'C12': 'Includes links whose two fibres have different lengths.',
    'C13': 'The reverse-direction figures of the automatic request are compared with those of the same mode imposed.',
    'C14': 'One world is brought to a common grid by align_grids from maps of different extents.',
    'C15': 'Includes a ring with one-way links (OMS without an opposite direction).',
    'C16': 'Includes requests that differ only in transmitter power, a GGN NLI method with a number of computed channels, and a two-band network.',
    'C17': 'Includes designs of the same input in separate interpreter processes under several string-hash seeds and after a design against another library, and PMD/PDL/CD/latency among the compared figures.',
    'C18': 'Includes YANG documents whose keyed lists are written in three other entry orders and the caller\'s own legacy document passed to the converter.',
    'C19': 'Includes transmitter-power twins, two bidirectional requests from one source (solo-run oracle), a slot centred on N = 0 and the CSV export against a second library with the same names.',
    'C20': 'Includes two rows disjoint from the same request, west cells equal to 0 next to non-zero east cells and a loose route list whose first entry is unknown.',
}

# additions made in the session of the wave-4 seeded changes (DESIGN.md 8.8), appended after ADDENDA
ADDENDA4 = {
    'C01': 'Every reported figure is read between any two operations (reads are side-effect free) and the operand arrays of the noise operations are persistent objects that must come back unchanged.',
    'C03': 'alpha(f) is compared with the configured loss coefficient (scalar or per-frequency table listed in either order).',
    'C05': 'Quick tier: Raman settings within 3 deviations (thorough: full product), lumped-loss lists given out of position order.',
    'C06': 'Every configuration is also judged on the network obtained by saving, reloading and redesigning the design.',
    'C07': 'Quick tier includes all typings of 4 touching channels; outermost channels sit on the band edge, across it by 12.5 GHz / 1 GHz / 1 MHz, or 1 MHz inside.',
    'C08': 'Includes lumped-loss lists out of position order on split fibres, a short fibre with an operator pad below the padding, a Raman fibre spliced to a plain fibre, and a library object that already served another design.',
    'C09': 'Includes a library object that already served the design of another line.',
    'C10': 'Includes a model 0.2 dB short of another with 0.1 dB steps of required gain across both limits, ROADM degrees without booster under booster restrictions, and a library object used before.',
    'C11': 'Includes two-request batches between the same transceivers through requests_aggregation (hop-type twins, the same nodes in another order) and complete element lists of routes (>= 11 route objects) as STRICT lists.',
    'C12': 'Includes two groups whose request ids read alike when concatenated.',
    'C14': 'Includes a world declared with a 50 GHz guard band.',
    'C16': 'Includes a 4-site mesh with requests between the same transceivers that differ only in their include lists (same nodes in both orders, LOOSE/STRICT).',
    'C17': 'Includes operator ROADM settings (node policy of each kind, per-degree targets of each kind, restrictions), a Raman fibre spliced to a plain fibre and a short padded fibre with an operator pad.',
    'C18': 'Includes the same optional structures on two elements of one document.',
    'C19': 'Quick tier: every ordered triple of 20 outcome kinds (thorough: quadruples) on a 5-site network; menu includes NO_PATH (unreachable site), a disjoint pair with a detour and output-power twins.',
    'C20': 'Quick tier: every combination of <= 3 workbook mutators (thorough: 4), every 1-3 row service sheet.',
}

# additions made with the wave-5 seeded changes (DESIGN.md 8.9)
ADDENDA5 = {
    'C03': 'The fibre description is also given at another reference frequency / wavelength, and with a dispersion slope of exactly 0.',
    'C06': 'Node target of exactly 0 dBm included.',
    'C10': 'Fibre loss exactly on the Raman limit included.',
    'C11': 'The two-request batches are also declared as a disjoint pair (STRICT lists crossed in order or the computation refused).',
    'C12': 'Includes a group and a strict subset of it in both orders.',
    'C13': 'Penalty tables of the oracle are built from the equipment document by the documented rule, not read back from the loaded object; includes a signed table with non-zero penalty around 0.',
    'C14': 'Includes fixed slots exactly one step inside and exactly on the guard-band limits.',
    'C16': 'Includes the same impossible include list once LOOSE and once STRICT.',
    'C18': 'Includes per-degree targets equal to 0 and YANG documents whose identityref leaves carry the module prefix.',
    'C20': 'Converts the .xls workbooks shipped with the repository through the real xlrd path (reference model built from an independent xlrd read); Eqpt rows on FUSED sites; service rows on a workbook with own west values.',
}

# additions made with the wave-6 seeded changes (DESIGN.md 8.10)
ADDENDA6 = {
    'C02': 'Includes one crossing of every amplifier model of the test, example and OpenROADM v4 / v5 libraries at operator gains from 0 dB to flatmax.',
    'C04': 'The band of each model is taken from the documents (library entry, advanced-configuration file, default) and compared with the built element.',
    'C08': 'Includes complete hand-written line systems through designed_network(no_insert_edfas=True) and a Raman fibre longer than the maximum span length.',
    'C09': 'Includes the power sweep of transmission_simulation (fibres unchanged by the per-power redesign, documented powers visited).',
    'C10': 'Includes two ROADMs joined without any fibre.',
    'C17': 'Includes a node policy of one kind together with per-degree targets of another kind.',
}


def main():
    checks = []
    for pid in ALL:
        if pid not in CHECKS:
            continue
        tech, text, note, ref = CHECKS[pid]
        if pid in ADDENDA:
            text = text + ' ' + ADDENDA[pid]
        if pid in ADDENDA4:
            text = text + ' ' + ADDENDA4[pid]
        if pid in ADDENDA5:
            text = text + ' ' + ADDENDA5[pid]
        if pid in ADDENDA6:
            text = text + ' ' + ADDENDA6[pid]
        checks.append({
            'property_id': pid,
            'quick_cmd': f'./check {pid} --tier quick',
            'thorough_cmd': f'./check {pid} --tier thorough',
            'evidence_file': f'/verif/evidence/{pid}.json',
            'replay_cmd_template': f'./check {pid} --replay {{path}}',
            'engine': 'mc',
            'level_claimed': {'category': 'model_checking', 'text': text, 'design_ref': ref},
            'level_note': note,
            'technique': tech,
        })
    man = {
        'version': 1,
        'setup_cmd': 'cd /verif && PYTHONPATH=/repo:/verif /venv/bin/python -m mc.selftest',
        'hooks': {
            'guard': 'GNPY_VERIF',
            'enable': 'none needed: all observation is done from the harness process (wrapping element __call__ and '
                      'generic_open_workbook in the checker\'s own interpreter); /repo carries no hook code',
            'baseline_off_cmd': BASELINE_CMD,
            'source_commits': [],
            'add_only': True,
        },
        'engines': [{
            'name': 'mc', 'path': '/verif/mc',
            'serves_properties': sorted(CHECKS),
            'kind_free_text': 'hand-written bounded-exhaustive explorer for Python: deviation-bounded configuration '
                              'enumeration + explicit-state BFS with history replay over the real gnpy code, spawn '
                              'worker pool, determinism gate, replay files, known-findings file'}],
        'checks': checks,
        'not_applicable': [{'property_id': p, 'reason': NOT_BUILT_REASON} for p in ALL if p not in CHECKS],
        'notes': 'Run with /venv/bin/python and PYTHONPATH=/repo (the checks import gnpy from /repo\'s working tree). '
                 'Exit 0 = held (KNOWN-FINDING lines possible), 1 = VIOLATION, 3 = harness error (vacuity guard or '
                 'nondeterminism).',
    }
    with open(os.path.join(VERIF, 'MANIFEST.json'), 'w') as f:
        json.dump(man, f, indent=1)
        f.write('\n')
    print(f'MANIFEST.json: {len(checks)} checks, {len(man["not_applicable"])} not applicable')


if __name__ == '__main__':
    main()
