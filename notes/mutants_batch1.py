import subprocess, shutil, pathlib, json, sys, time, os, re
MUTS = [
 ('C01_add_ase_no_nli_rescale','gnpy/core/info.py',"        self._nli_ratio *= self.pch / pch\n","        pass\n"),
 ('C02_add_nli_no_ase_rescale','gnpy/core/info.py',"        self._ase_ratio *= (1 - nli_ratio)\n","        pass\n"),
 ('C03_eta_baud_swap','gnpy/core/science_utils.py',"        eta_cut_central_frequency = gamma ** 2 * weight * psi / (cut_baud_rate * pump_baud_rate ** 2)\n        eta = cut_baud_rate * eta_cut_central_frequency  # Local white noise\n        return eta\n\n    @staticmethod\n    def _psi","        eta_cut_central_frequency = gamma ** 2 * weight * psi / (pump_baud_rate * cut_baud_rate ** 2)\n        eta = cut_baud_rate * eta_cut_central_frequency  # Local white noise\n        return eta\n\n    @staticmethod\n    def _psi"),
 ('C03_psi_pump_baud','gnpy/core/science_utils.py',"        cut_baud_rate = outer(baud_rate, ones(baud_rate.size))\n        cut_beta = outer(beta2, ones(baud_rate.size))\n        pump_baud_rate = baud_rate\n","        cut_baud_rate = outer(ones(baud_rate.size), baud_rate)\n        cut_beta = outer(beta2, ones(baud_rate.size))\n        pump_baud_rate = baud_rate\n"),
 ('C04_nf_pad_dropped','gnpy/core/elements.py',"        return nf_avg + pad, pad\n","        return nf_avg, pad\n"),
 ('C04_clamp_per_channel','gnpy/core/elements.py',"            self.params.p_max - self.pin_db\n","            self.params.p_max - watt2dbm(max(pch_in))\n"),
 ('C05_edfa_pdl_linear','gnpy/core/elements.py',"        spectral_info.pdl = sqrt(spectral_info.pdl ** 2 + self.params.pdl ** 2)\n","        spectral_info.pdl = spectral_info.pdl + self.params.pdl\n"),
 ('C05_cd_second_span','gnpy/core/elements.py',"        spectral_info.chromatic_dispersion += self.chromatic_dispersion(spectral_info.frequency)\n        spectral_info.pmd = sqrt(spectral_info.pmd ** 2 + self.pmd ** 2)\n\n        # latency\n        spectral_info.latency += self.params.latency\n\n        # apply the attenuation due to the fiber losses\n        attenuation_fiber = stimulated_raman_scattering.loss_profile[:, -1]","        spectral_info.chromatic_dispersion = spectral_info.chromatic_dispersion * (1 + 1e-3 * (spectral_info.chromatic_dispersion > 0)) + self.chromatic_dispersion(spectral_info.frequency)\n        spectral_info.pmd = sqrt(spectral_info.pmd ** 2 + self.pmd ** 2)\n\n        # latency\n        spectral_info.latency += self.params.latency\n\n        # apply the attenuation due to the fiber losses\n        attenuation_fiber = stimulated_raman_scattering.loss_profile[:, -1]"),
 ('C06_per_degree_psd_uses_slotwidth','gnpy/core/elements.py',"            return psd2powerdbm(self.per_degree_pch_psd[degree], spectral_info.baud_rate)\n","            return psd2powerdbm(self.per_degree_pch_psd[degree], spectral_info.slot_width)\n"),
 ('C06_maxloss_not_in_compare','gnpy/core/elements.py',"        correction = calculate_absolute_min_or_zero(net_input_pch_dbm - target_power_per_channel)\n","        correction = calculate_absolute_min_or_zero(input_pch_dbm - target_power_per_channel)\n"),
 ('C07_band_edge_strict','gnpy/core/info.py',"    return (frequency - slot_width / 2 >= band['f_min']) * (frequency + slot_width / 2 <= band['f_max']) == 1","    return (frequency - slot_width / 2 > band['f_min']) * (frequency + slot_width / 2 <= band['f_max']) == 1"),
 ('C08_split_truncates_length','gnpy/core/network.py',"    fiber.params.length = new_length\n","    fiber.params.length = float(int(new_length / 10) * 10)\n"),
 ('C09_prev_voa_sign','gnpy/core/network.py',"        gain_target = node_loss + deviation_db + dp - prev_dp + prev_voa + in_voa\n","        gain_target = node_loss + deviation_db + dp - prev_dp - prev_voa + in_voa\n"),
 ('C09_no_zero_before_roadm','gnpy/core/network.py',"    if isinstance(node, elements.Roadm):\n        return 0\n\n    dp_range","    if isinstance(node, elements.Roadm):\n        return 1\n\n    dp_range"),
 ('C10_first_instead_of_min_nf','gnpy/core/network.py',"    selected_edfa = min(acceptable_power_list, key=attrgetter('nf'))  # filter on NF\n","    selected_edfa = acceptable_power_list[0]\n"),
 ('C10_raman_always_allowed','gnpy/core/network.py',"        raman_allowed = (prev_node.params.loss_coef < max_fiber_lineic_loss_for_raman).all()\n","        raman_allowed = True\n"),
 ('C11_loose_fallback_hops','gnpy/topology/request.py',"            total_path = dijkstra_path(network, source, destination, weight='weight')\n","            total_path = dijkstra_path(network, source, destination, weight=None)\n"),
 ('C12_no_reverse_check','gnpy/topology/request.py',"                        all_disjoint += isdisjoint(pth1, pth) + isdisjoint(pth1_reversed, pth)\n","                        all_disjoint += isdisjoint(pth1, pth)\n"),
 ('C13_update_snr_accumulates','gnpy/core/elements.py',"        self.snr_01nm = snr_sum(self.raw_snr_01nm, 12.5e9, snr_added)\n","        self.snr_01nm = snr_sum(self.snr_01nm, 12.5e9, snr_added)\n"),
 ('C13_no_del_tx_osnr','gnpy/topology/request.py',"                    del roadm_osnr[-1]\n","                    pass\n"),
 ('C14_lower_bound_off_by_one','gnpy/topology/spectrum_assignment.py',"                      and freq_index[i] >= freq_index_min\n","                      and freq_index[i] >= freq_index_min - 1\n"),
 ('C14_assign_before_check','gnpy/topology/spectrum_assignment.py',"            if remaining_slots_to_serve > 0:\n                rq.N = None\n                rq.M = None\n                rq.blocking_reason = 'NO_SPECTRUM'\n                continue\n            for oms_elem in path_oms:\n                for this_n, this_m in zip(selected_n, selected_m):\n                    if this_m is not None:\n                        oms_list[oms_elem].assign_spectrum(this_n, this_m)\n","            for oms_elem in path_oms:\n                for this_n, this_m in zip(selected_n, selected_m):\n                    if this_m is not None:\n                        oms_list[oms_elem].assign_spectrum(this_n, this_m)\n            if remaining_slots_to_serve > 0:\n                rq.N = None\n                rq.M = None\n                rq.blocking_reason = 'NO_SPECTRUM'\n                continue\n"),
 ('C16_no_deepcopy','gnpy/topology/request.py',"        total_path = deepcopy(pathlist[i])\n","        total_path = pathlist[i]\n"),
 ('C17_simparams_not_restored','gnpy/core/network.py',"        SimParams.set_params(save_sim_params)\n        return round(estimated_gain, 2)\n","        return round(estimated_gain, 2)\n"),
 ('C17_export_user_delta_p','gnpy/core/elements.py',"                'delta_p': self.delta_p,\n                'tilt_target': round(tilt_target, 5) if tilt_target is not None else None,","                'delta_p': self.operational.delta_p,\n                'tilt_target': round(tilt_target, 5) if tilt_target is not None else None,"),
 ('C18_precision_delta_p','gnpy/yang/precision_dict.py','    "delta_p": 6,\n','    "delta_p": 1,\n'),
 ('C18_drop_per_degree_psw','gnpy/tools/yang_convert_utils.py',"    equalization_types = [\n        'per_degree_pch_out_db',\n        'per_degree_psd_out_mWperGHz',\n        'per_degree_psd_out_mWperSlotWidth'\n    ]\n","    equalization_types = [\n        'per_degree_pch_out_db',\n        'per_degree_psd_out_mWperGHz'\n    ]\n"),
 ('C19_za_uses_forward','gnpy/topology/request.py',"                'z-a-path-metric': path_metric(self.reversed_computed_path, self.path_request),\n","                'z-a-path-metric': path_metric(self.computed_path, self.path_request),\n"),
 ('C19_csv_no_margin','gnpy/topology/request.py',"            minosnr + equipment['SI']['default'].sys_margins, baud_rate, power, pth, sptrm, bit_rate), cost\n","            minosnr, baud_rate, power, pth, sptrm, bit_rate), cost\n"),
 ('C20_sync_only_first','gnpy/tools/service_sheet.py',"                        'request-id-number': [self.request_id] + list(self.disjoint_from)\n","                        'request-id-number': [self.request_id] + list(self.disjoint_from)[:1]\n"),
 ('C20_eqpt_west_att_in','gnpy/tools/convert.py',"                               'in_voa':      node.west_att_in}    # noqa: E241\n    elif node.west_amp_type.lower() == '':","                               'in_voa':      node.east_att_in}    # noqa: E241\n    elif node.west_amp_type.lower() == '':"),
]
BASE_FAIL = {'tests/test_invocation.py::test_conversion_xls','tests/test_invocation.py::test_run_wrapper[gnpy-path-request]','tests/test_invocation.py::test_run_wrapper[gnpy-transmission-example]','tests/test_parser.py::test_auto_design_generation_fromjson[json_input0-False]','tests/test_parser.py::test_auto_design_generation_fromxlsgainmode[xls_input0-expected_json_output0]'}
out = {}
only = sys.argv[1:] 
for name, path, old, new in MUTS:
    if only and name not in only: continue
    scratch = pathlib.Path('/tmp/mut/repo')
    if scratch.exists(): shutil.rmtree(scratch)
    subprocess.run(['rsync','-a','--exclude','.git','/repo/', str(scratch)+'/'], check=True)
    p = scratch/path; s = p.read_text()
    n = s.count(old)
    if n != 1:
        out[name] = f'PATCH-FAILED count={n}'; print(name, out[name], flush=True); continue
    p.write_text(s.replace(old, new))
    t0=time.time()
    r = subprocess.run(['/venv/bin/python','-m','pytest','-q','-p','no:cacheprovider','--timeout=900','--continue-on-collection-errors','-n','14'],
                       cwd=scratch, env=dict(os.environ, PYTHONPATH=str(scratch)), capture_output=True, text=True)
    failed = set(re.findall(r'^(?:FAILED|ERROR) (\S+)', r.stdout, re.M))
    new_fail = sorted(failed - BASE_FAIL)
    summary = r.stdout.strip().splitlines()[-1] if r.stdout.strip() else 'no output'
    out[name] = {'survives': not new_fail, 'new_failures': new_fail[:6], 'n_new': len(new_fail), 'summary': summary, 's': round(time.time()-t0)}
    print(name, json.dumps(out[name]), flush=True)
    shutil.rmtree(scratch)
json.dump(out, open('/tmp/mut/results.json','w'), indent=1)
print('DONE')
