import subprocess, shutil, pathlib, json, sys, time, os, re
MUTS = [
 ('C01_mux_ase_from_nli','gnpy/core/info.py',"                                       ase_ratio=append(self._ase_ratio, other._ase_ratio),\n","                                       ase_ratio=append(self._ase_ratio, other._nli_ratio),\n"),
 ('C04_dual_stage_friis','gnpy/core/elements.py',"            nf_avg = lin2db(db2lin(nf1_avg) + db2lin(nf2_avg - g1))\n","            nf_avg = lin2db(db2lin(nf1_avg) + db2lin(nf2_avg) / db2lin(g1 + 3))\n"),
 ('C04_openroadm_slotwidth_scaling','gnpy/core/elements.py',"            pin_ch_50GHz = self.pin_db - lin2db(self.nch) + lin2db(50e9 / self.slot_width)\n            # model OSNR = f(Pin per 50 GHz channel)\n            nf_avg = pin_ch_50GHz - polyval(nf_model.nf_coef, pin_ch_50GHz) + 58\n","            pin_ch_50GHz = self.pin_db - lin2db(self.nch)\n            # model OSNR = f(Pin per 50 GHz channel)\n            nf_avg = pin_ch_50GHz - polyval(nf_model.nf_coef, pin_ch_50GHz) + 58\n"),
 ('C04_advanced_nf_above_flatmax','gnpy/core/elements.py',"        dg = max(gain_flatmax - gain_target, 0)\n","        dg = abs(gain_flatmax - gain_target)\n"),
 ('C05_roadm_pdl_linear','gnpy/core/elements.py',"        spectral_info.pdl = sqrt(spectral_info.pdl ** 2 + pdl_impairment ** 2)\n","        spectral_info.pdl = spectral_info.pdl + pdl_impairment\n"),
 ('C05_roadm_pmd_linear','gnpy/core/elements.py',"        spectral_info.pmd = sqrt(spectral_info.pmd ** 2 + pmd_impairment ** 2)\n","        spectral_info.pmd = spectral_info.pmd + pmd_impairment\n"),
 ('C06_per_degree_psw_uses_baud','gnpy/core/elements.py',"            return psd2powerdbm(self.per_degree_pch_psw[degree], spectral_info.slot_width)\n","            return psd2powerdbm(self.per_degree_pch_psw[degree], spectral_info.baud_rate)\n"),
 ('C06_offset_ignored_below_target','gnpy/core/elements.py',"        new_target = target_power_per_channel - correction\n","        new_target = target_power_per_channel - correction - (correction > 0) * spectral_info.delta_pdb_per_channel\n"),
 ('C07_upper_edge_strict','gnpy/core/info.py',"(frequency + slot_width / 2 <= band['f_max']) == 1","(frequency + slot_width / 2 < band['f_max']) == 1"),
 ('C07_overlap_check_ge','gnpy/core/info.py',"        overlap = self._frequency[:-1] + self._slot_width[:-1] / 2 > self._frequency[1:] - self._slot_width[1:] / 2\n","        overlap = self._frequency[:-1] + self._slot_width[:-1] / 2 > self._frequency[1:] - self._slot_width[1:] / 2 + 12.5e9\n"),
 ('C08_padding_first_node','gnpy/core/network.py',"            first_fiber = find_first_node(network, fiber)\n","            first_fiber = find_last_node(network, fiber)\n"),
 ('C09_no_upper_clamp','gnpy/core/network.py',"        dp = min(dp_range[1], dp)\n","        dp = dp\n"),
 ('C09_voa_margin_sign','gnpy/core/network.py',"            voa = max(round2float(voa, voa_step) - voa_margin, 0)\n","            voa = max(round2float(voa, voa_step) + voa_margin, 0)\n"),
 ('C09_saturation_user_dp','gnpy/core/network.py',"            power_reduction = min(0, p_max - (pref_total_db + dp))\n","            power_reduction = min(0, p_max - (pref_ch_db + dp))\n"),
 ('C10_no_extended_gain','gnpy/core/network.py',"        power=min(pin + edfa.gain_flatmax + target_extended_gain, edfa.p_max) - power_target,\n        gain_min=gain_target + 3 - edfa.gain_min,","        power=min(pin + edfa.gain_flatmax, edfa.p_max) - power_target,\n        gain_min=gain_target + 3 - edfa.gain_min,"),
 ('C10_preamp_restriction_from_booster','gnpy/core/network.py',"        restrictions = next_node.restrictions['preamp_variety_list']\n","        restrictions = next_node.restrictions['booster_variety_list']\n"),
 ('C10_variety_list_after_roadm','gnpy/core/network.py',"    if node.variety_list and isinstance(node.variety_list, list):\n        restrictions = node.variety_list\n    elif isinstance(prev_node, elements.Roadm) and prev_node.restrictions['booster_variety_list']:","    if isinstance(prev_node, elements.Roadm) and prev_node.restrictions['booster_variety_list']:\n        restrictions = prev_node.restrictions['booster_variety_list']\n    elif node.variety_list and isinstance(node.variety_list, list):\n        restrictions = node.variety_list\n    elif isinstance(prev_node, elements.Roadm) and prev_node.restrictions['booster_variety_list']:"),
 ('C11_strict_treated_loose','gnpy/topology/request.py',"        if 'STRICT' not in req.loose_list[:-1]:\n","        if 'STRICT' not in req.loose_list[:-2]:\n"),
 ('C12_step5_unfiltered','gnpy/topology/request.py',"        if temp:\n            candidates[this_d.disjunction_id] = temp\n        elif alternatetemp:","        if temp:\n            candidates[this_d.disjunction_id] = temp + alternatetemp\n        elif alternatetemp:"),
 ('C13_penalty_left_zero','gnpy/core/elements.py',"                      left=float('inf'), right=float('inf'))\n","                      left=0.0, right=float('inf'))\n"),
 ('C13_reverse_no_penalty','gnpy/topology/request.py',"                snr01nm_with_penalty = rev_p[-1].snr_01nm - rev_p[-1].total_penalty\n","                snr01nm_with_penalty = rev_p[-1].snr_01nm\n"),
 ('C13_mode_order_bitrate','gnpy/topology/request.py',"                                      key=lambda x: (x['bit_rate'], x['equalization_offset_db']), reverse=True)\n","                                      key=lambda x: (x['OSNR'], x['equalization_offset_db']), reverse=True)\n"),
 ('C14_m_check_floor','gnpy/topology/spectrum_assignment.py',"                if nb_wl > nb_channels_of_request:\n","                if nb_wl > nb_channels_of_request + 1:\n"),
 ('C14_guard_upper','gnpy/topology/spectrum_assignment.py',"                      and freq_index[i + 2 * requested_m - 1] <= freq_index_max]\n","                      and freq_index[i + 2 * requested_m - 1] <= freq_index_max + 1]\n"),
 ('C16_rev_no_deepcopy','gnpy/topology/request.py',"                rev_p = deepcopy(reversed_path)\n","                rev_p = reversed_path\n"),
 ('C17_fiber_length_round3','gnpy/core/elements.py',"            'length': round(self.params.length * 1e-3, 6),\n","            'length': round(self.params.length * 1e-3, 3),\n"),
 ('C17_multiband_gain_none_when_zero','gnpy/core/network.py',"    node._delta_p = node.delta_p if power_mode else dp\n","    node._delta_p = node.delta_p if power_mode else dp\n    node.operational.delta_p = node.delta_p\n"),
 ('C18_n_precision','gnpy/yang/precision_dict.py','    "out_voa": 2,\n','    "out_voa": 0,\n'),
 ('C19_aggregation_bandwidth','gnpy/topology/request.py',"                this_r.path_bandwidth += req.path_bandwidth\n","                this_r.path_bandwidth = max(this_r.path_bandwidth, req.path_bandwidth)\n"),
 ('C19_labels_on_blocked','gnpy/topology/request.py',"            if not hasattr(self.path_request, 'blocking_reason'):\n                # M and N values should not be None at this point","            if not hasattr(self.path_request, 'blocking_reason') or self.path_request.blocking_reason == 'MODE_NOT_FEASIBLE':\n                # M and N values should not be None at this point"),
 ('C20_west_default_not_east','gnpy/tools/convert.py',"            k = 'west' + k.rsplit('east', maxsplit=1)[-1]\n            v = clean_kwargs.get(k, v)\n            setattr(self, k, v)\n\n    def __eq__","            k = 'west' + k.rsplit('east', maxsplit=1)[-1]\n            v = clean_kwargs.get(k, self.default_values.get('east' + k[4:], v) if k.endswith('_con_in') else v)\n            setattr(self, k, v)\n\n    def __eq__"),
 ('C20_loose_default','gnpy/tools/service_sheet.py',"                self.is_loose = v in ['', None, 'yes', 'Yes', 'YES']\n","                self.is_loose = v in ['', None, 'yes', 'Yes', 'YES', 'no']\n"),
]
BASE_FAIL = {'tests/test_invocation.py::test_conversion_xls','tests/test_invocation.py::test_run_wrapper[gnpy-path-request]','tests/test_invocation.py::test_run_wrapper[gnpy-transmission-example]','tests/test_parser.py::test_auto_design_generation_fromjson[json_input0-False]','tests/test_parser.py::test_auto_design_generation_fromxlsgainmode[xls_input0-expected_json_output0]'}
out = {}
only = sys.argv[1:] 
for name, path, old, new in MUTS:
    if only and name not in only: continue
    scratch = pathlib.Path('/tmp/mut/repo')
    if scratch.exists(): shutil.rmtree(scratch)
    subprocess.run(['rsync','-a','--exclude','.git','/repo/', str(scratch)+'/'], check=True)
    p = scratch/path; s = p.read_text()
    n = s.count(old)
    if n != 1:
        out[name] = f'PATCH-FAILED count={n}'; print(name, out[name], flush=True); continue
    p.write_text(s.replace(old, new))
    t0=time.time()
    r = subprocess.run(['/venv/bin/python','-m','pytest','-q','-p','no:cacheprovider','--timeout=900','--continue-on-collection-errors','-n','14'],
                       cwd=scratch, env=dict(os.environ, PYTHONPATH=str(scratch)), capture_output=True, text=True)
    failed = set(re.findall(r'^(?:FAILED|ERROR) (\S+)', r.stdout, re.M))
    new_fail = sorted(failed - BASE_FAIL)
    summary = r.stdout.strip().splitlines()[-1] if r.stdout.strip() else 'no output'
    out[name] = {'survives': not new_fail, 'new_failures': new_fail[:6], 'n_new': len(new_fail), 'summary': summary, 's': round(time.time()-t0)}
    print(name, json.dumps(out[name]), flush=True)
    shutil.rmtree(scratch)
json.dump(out, open('/tmp/mut/results2.json','w'), indent=1)
print('DONE')
