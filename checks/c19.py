"""C19 - the reported response states exactly what was computed for each request.

Every ordered pair and triple (quick: also 1/40 of the quadruples, thorough: every quadruple) of outcome kinds {served, served bidirectional, served multi-slot, aggregated pair,
aggregated triple, disjoint pair (one member on a detour), NO_PATH (unreachable site), NO_PATH_WITH_CONSTRAINT, NO_FEASIBLE_BAUDRATE_WITH_SPACING, NO_FEASIBLE_MODE, MODE_NOT_FEASIBLE
(forward) / (reverse only), NO_SPECTRUM, NOT_ENOUGH_RESERVED_SPECTRUM} on an asymmetric 5-site network, through the real
planning() -> ResultElement.json / results_to_json -> jsontocsv.  Oracle: independent response model built from the
returned requests and propagated paths; the CSV is parsed back and compared column by column, and jsontocsv is also
driven with the same responses whose lowest-SNR metric is moved around the margin-inclusive threshold.
"""
import copy
import csv
import io
import itertools
import math

from mc import engine
from checks import common as c
from checks import reqgen as rg

KINDS = ['served', 'served_bidir', 'served_slots', 'agg2', 'agg3', 'no_path_constraint', 'no_baudrate', 'no_feasible_mode',
         'mode_not_feasible', 'mode_not_feasible_rev', 'no_spectrum', 'not_enough_reserved', 'served_bidir2', 'twin_tx_lo',
         'twin_tx_hi', 'served_n0', 'no_path', 'disjoint_pair', 'twin_p_lo', 'twin_p_hi']
MARGIN = 2


def library(thresholds=None, osnr_shift=0.0):
    eq = c.eqpt_json('test')
    eq['SI'][0]['sys_margins'] = MARGIN
    eq['SI'][0]['f_max'] = 193.1e12
    th = thresholds or {}
    pen = [{'chromatic_dispersion': 1e5, 'penalty_value': 2.0}, {'pmd': 100, 'penalty_value': 1.0},
           {'pdl': 0.1, 'penalty_value': 0.1}, {'pdl': 10, 'penalty_value': 4.0}]

    def mode(fmt, baud, rate, spacing, osnr, penalties=True):
        m = {'format': fmt, 'baud_rate': baud, 'OSNR': osnr, 'bit_rate': rate, 'roll_off': 0.15, 'tx_osnr': 38,
             'min_spacing': spacing, 'cost': 3}
        if penalties:
            m['penalties'] = copy.deepcopy(pen)
        return m
    eq['Transceiver'] = [
        {'type_variety': 'T', 'frequency': {'min': 191.35e12, 'max': 193.1e12}, 'mode': [
            mode('ok', 32e9, 100e9, 50e9, 12),
            mode('ok2', 32e9, 200e9, 50e9, 14, penalties=False),
            mode('hard', 32e9, 300e9, 50e9, th.get('hard', 60)),
            mode('fwd_only', 32e9, 150e9, 50e9, th.get('fwd_only', 60)),
        ]},
        {'type_variety': 'T_none', 'frequency': {'min': 191.35e12, 'max': 193.1e12}, 'mode': [
            mode('n1', 32e9, 100e9, 50e9, 60), mode('n2', 64e9, 200e9, 75e9, 62)]},
    ]
    for t in eq['Transceiver']:
        if t['type_variety'] in ('T', 'T_none'):
            for m in t['mode']:
                m['OSNR'] = m['OSNR'] + osnr_shift      # another library using the same type and mode names
    for r in eq['Roadm']:
        r['pdl'] = 0.5
        r['pmd'] = 1e-12
    return eq


def topology():
    # line A-B-C (asymmetric directions); a long detour A-D-C that no shortest route uses (only the second request of a
    # disjoint pair); site E can reach A but cannot be reached (one-way link)
    return c.build_topology(['A', 'B', 'C', 'D', 'E'], [('A', 'B', [c.fiber(80)], [c.fiber(120)]),
                                                        ('B', 'C', [c.fiber(60)], [c.fiber(110), c.edfa(), c.fiber(100)]),
                                                        ('A', 'D', [c.fiber(170)], [c.fiber(170)]),
                                                        ('D', 'C', [c.fiber(170)], [c.fiber(170)]),
                                                        ('E', 'A', [c.fiber(50)], None)])


_TH = {}


def thresholds():
    """place 'fwd_only' between the forward and the reverse metric of A->C (measured once per process)"""
    if not _TH:
        from gnpy.tools.worker_utils import planning
        net, equipment, _, _ = c.design(topology(), library())
        res = planning(net, equipment, rg.service([rg.request('p', 'trx A', 'trx C', trx_type='T', mode='ok', bidir=True)]))
        rx_f, rx_r = res[1][0][-1], res[2][0][-1]
        mf = float(min(rx_f.snr_01nm - rx_f.total_penalty))
        mr = float(min(rx_r.snr_01nm - rx_r.total_penalty))
        assert mr < mf - 0.5, (mf, mr)
        _TH['fwd_only'] = round((mf + mr) / 2 - MARGIN, 2)
        _TH['hard'] = round(mf + 3 - MARGIN, 2)
    return _TH


def requests_for(kind, tag):
    """list of request entries producing the outcome `kind` (ids prefixed by tag so that kinds can repeat in a batch)"""
    R = rg.request
    if kind == 'served':
        return [R(f'{tag}s', 'trx A', 'trx C', trx_type='T', mode='ok', bandwidth=100e9)]
    if kind == 'served_bidir':
        return [R(f'{tag}b', 'trx C', 'trx A', trx_type='T', mode='ok2', bandwidth=300e9, bidir=True)]
    if kind == 'served_bidir2':
        # a second bidirectional request from the same source transceiver as served_bidir (other destination and mode)
        return [R(f'{tag}c', 'trx C', 'trx B', trx_type='T', mode='ok', bandwidth=100e9, bidir=True)]
    if kind in ('twin_tx_lo', 'twin_tx_hi'):
        # twins: identical in everything but the transmitter output power, so they are NOT identical requests
        return [R(f'{tag}w', 'trx B', 'trx A', trx_type='T', mode='ok2', bandwidth=100e9,
                  tx_power=1e-6 if kind == 'twin_tx_lo' else 5e-4)]
    if kind in ('twin_p_lo', 'twin_p_hi'):
        # twins: identical in everything (transmitter power included) but the requested optical power in the line
        return [R(f'{tag}p', 'trx C', 'trx B', trx_type='T', mode='ok', bandwidth=100e9, tx_power=1e-3,
                  power=1e-3 if kind == 'twin_p_lo' else 2e-3)]
    if kind == 'served_n0':
        # slot centred exactly on the anchor frequency of the grid (N = 0)
        return [R(f'{tag}z', 'trx A', 'trx B', trx_type='T', mode='ok2', bandwidth=100e9, n=0, m=4)]
    if kind == 'served_slots':
        return [R(f'{tag}m', 'trx A', 'trx B', trx_type='T', mode='ok', bandwidth=200e9,
                  slots=[{'N': -200, 'M': 4}, {'N': None, 'M': None}])]
    if kind == 'agg2':
        return [R(f'{tag}a1', 'trx B', 'trx C', trx_type='T', mode='ok', bandwidth=100e9),
                R(f'{tag}a2', 'trx B', 'trx C', trx_type='T', mode='ok', bandwidth=200e9)]
    if kind == 'agg3':
        return [R(f'{tag}t{i}', 'trx C', 'trx B', trx_type='T', mode='ok2', bandwidth=100e9 * (i + 1)) for i in range(3)]
    if kind == 'no_path_constraint':
        return [R(f'{tag}n', 'trx A', 'trx B', trx_type='T', mode='ok', include=[('roadm C', 'STRICT'), ('roadm A', 'STRICT')])]
    if kind == 'no_baudrate':
        return [R(f'{tag}q', 'trx A', 'trx C', trx_type='T', mode=None, spacing=30e9)]
    if kind == 'no_feasible_mode':
        return [R(f'{tag}f', 'trx A', 'trx C', trx_type='T_none', mode=None, spacing=75e9)]
    if kind == 'mode_not_feasible':
        return [R(f'{tag}h', 'trx A', 'trx C', trx_type='T', mode='hard')]
    if kind == 'mode_not_feasible_rev':
        return [R(f'{tag}r', 'trx A', 'trx C', trx_type='T', mode='fwd_only', bidir=True)]
    if kind == 'no_spectrum':
        return [R(f'{tag}x', 'trx B', 'trx A', trx_type='T', mode='ok', bandwidth=100e9, n=482, m=4)]
    if kind == 'no_path':
        return [R(f'{tag}u', 'trx A', 'trx E', trx_type='T', mode='ok')]
    if kind == 'disjoint_pair':
        # two requests between the same sites that must not share a link: one takes the detour over D (other modes, so
        # that nothing else of the menu is identical to them)
        return [R(f'{tag}d1', 'trx A', 'trx C', trx_type='T', mode='ok2', bandwidth=100e9),
                R(f'{tag}d2', 'trx A', 'trx C', trx_type='T', mode='ok', bandwidth=200e9)]
    if kind == 'not_enough_reserved':
        # no mode given: the selected mode (150 Gbit/s) needs 3 channels for 400 Gbit/s, the reserved M=4 carries one
        return [R(f'{tag}e', 'trx A', 'trx C', trx_type='T', mode=None, bandwidth=400e9, n=-100, m=4)]
    raise ValueError(kind)


EXPECTED_REASON = {'no_path_constraint': 'NO_PATH_WITH_CONSTRAINT', 'no_baudrate': 'NO_FEASIBLE_BAUDRATE_WITH_SPACING',
                   'no_feasible_mode': 'NO_FEASIBLE_MODE', 'mode_not_feasible': 'MODE_NOT_FEASIBLE',
                   'mode_not_feasible_rev': 'MODE_NOT_FEASIBLE', 'no_spectrum': 'NO_SPECTRUM',
                   'not_enough_reserved': 'NOT_ENOUGH_RESERVED_SPECTRUM', 'no_path': 'NO_PATH'}
NOPATH = {'NO_PATH', 'NO_PATH_WITH_CONSTRAINT', 'NO_FEASIBLE_BAUDRATE_WITH_SPACING', 'NO_COMPUTED_SNR'}


def metric_model(rx, rq):
    """expected path-metric values from a propagated receiver"""
    import numpy as np

    def pen(k):
        if k not in rx.penalties:
            return 'not evaluated'
        val = round(float(np.mean(rx.penalties[k])), 2)
        return 'Infinity' if math.isinf(val) else val
    return {'SNR-bandwidth': round(float(np.mean(rx.snr)), 2), 'SNR-0.1nm': round(float(np.mean(rx.snr_01nm)), 2),
            'OSNR-bandwidth': round(float(np.mean(rx.osnr_ase)), 2), 'OSNR-0.1nm': round(float(np.mean(rx.osnr_ase_01nm)), 2),
            'lowest_SNR-0.1nm': round(float(np.min(rx.snr_01nm)), 2), 'biggest_SNR-0.1nm': round(float(np.max(rx.snr_01nm)), 2),
            'PDL_penalty': pen('pdl'), 'CD_penalty': pen('chromatic_dispersion'), 'PMD_penalty': pen('pmd'),
            'reference_power': rq.power, 'path_bandwidth': rq.path_bandwidth}


_SOLO_ZA = {}


def solo_za(kind):
    """z-a metrics of a bidirectional menu entry computed alone on a fresh network (a request's figures do not depend on
    the rest of the batch)"""
    from gnpy.tools.json_io import results_to_json
    from gnpy.tools.worker_utils import planning
    if kind not in _SOLO_ZA:
        net, equipment, _, _ = c.design(topology(), library(thresholds()))
        res = planning(net, equipment, rg.service(requests_for(kind, 'k0')))
        r = results_to_json(res[5])['response'][0]
        props = r.get('path-properties') or r.get('no-path', {}).get('path-properties') or {}
        _SOLO_ZA[kind] = {m['metric-type']: m['accumulative-value'] for m in props.get('z-a-path-metric', [])}
    return _SOLO_ZA[kind]


def run_case(case):
    import numpy as np
    from gnpy.tools.json_io import results_to_json
    from gnpy.tools.worker_utils import planning
    from gnpy.topology.request import jsontocsv
    viol = []

    def v(fp, what):
        viol.append(dict(fingerprint=fp, what=what, case=case))
    th = thresholds()
    eq = library(th)
    net, equipment, _, _ = c.design(topology(), eq)
    reqs = []
    groups = []         # (kind, [ids])
    sync = []
    for k, kind in enumerate(case['kinds']):
        rs = requests_for(kind, f'k{k}')
        reqs += rs
        if kind == 'disjoint_pair':
            sync.append([r['request-id'] for r in rs])
            groups += [(kind, [r['request-id']], [r]) for r in rs]
        else:
            groups.append((kind, [r['request-id'] for r in rs], rs))
    doc = rg.service(reqs, groups=sync or None)
    try:
        oms_list, ppaths, rpaths, rqs, dsjn, result = planning(net, equipment, doc)
        resp = results_to_json(result)
    except Exception as exc:  # noqa
        v(f'response-generation-raised:{type(exc).__name__}', f'batch {case["kinds"]}: {str(exc)[:200]}')
        return {'violations': viol, 'transitions': 1}
    responses = resp['response']
    tags = {}
    transitions = 0
    by_ids = {}
    for r in responses:
        key = frozenset(r['response-id'].split(' | '))
        if key in by_ids:
            v('duplicate-response', f'two responses for ids {sorted(key)}')
        by_ids[key] = r
    computed = {frozenset(rq.request_id.split(' | ')): (rq, pp, rp) for rq, pp, rp in zip(rqs, ppaths, rpaths)}
    margin = MARGIN                 # of the equipment document (not read back from the loaded object)
    doc_modes = {(t['type_variety'], m['format']): m for t in eq['Transceiver'] for m in t.get('mode', [])}
    rows_expected = {}
    for kind, ids, rs in groups:
        transitions += 1
        where = f'outcome {kind} (ids {ids}) in batch {case["kinds"]}'
        key = frozenset(ids)
        if key not in by_ids:
            v('response-missing-or-wrong-id', f'{where}: responses carry ids {[r["response-id"] for r in responses]}')
            continue
        r = by_ids[key]
        rq, pp, rp = computed.get(key, (None, None, None))
        if rq is None:
            v('aggregation-unexpected', f'{where}: planning returned ids {[x.request_id for x in rqs]}')
            continue
        exp_bw = sum(x['path-constraints']['te-bandwidth']['path_bandwidth'] for x in rs)
        exp_reason = EXPECTED_REASON.get(kind)
        reason = getattr(rq, 'blocking_reason', None)
        tags['outcome:' + str(reason)] = 1
        if reason != exp_reason:
            # the harness's menu entry did not produce the outcome it was built for: not a response error, but report it
            v('menu-outcome-differs', f'{where}: expected computed outcome {exp_reason}, planning computed {reason}')
            continue
        if reason in NOPATH:
            if r != {'response-id': rq.request_id, 'no-path': {'no-path': reason}}:
                v('no-path-response-shape', f'{where}: {str(r)[:200]}')
            rows_expected[rq.request_id] = {'Pass?': reason}
            continue
        if reason is not None:
            if 'no-path' not in r or r['no-path'].get('no-path') != reason or 'path-properties' not in r['no-path']:
                v('blocked-response-shape', f'{where}: expected reason {reason} with path-properties, got {str(r)[:200]}')
                continue
            props = r['no-path']['path-properties']
        else:
            if 'no-path' in r or 'path-properties' not in r:
                v('served-response-shape', f'{where}: {str(r)[:200]}')
                continue
            props = r['path-properties']
        # route objects
        objs = [o['path-route-object'] for o in props['path-route-objects']]
        if [o['index'] for o in objs] != list(range(len(objs))):
            v('route-object-indices', f'{where}: indices {[o["index"] for o in objs][:8]}')
        hops = [o['num-unnum-hop']['node-id'] for o in objs if 'num-unnum-hop' in o]
        if hops != [e.uid for e in pp]:
            v('route-differs-from-computed-path', f'{where}: response hops {hops[:5]}... computed {[e.uid for e in pp][:5]}...')
        labels = [o['label-hop'] for o in objs if 'label-hop' in o]
        if reason is not None and labels:
            v('labels-on-blocked-request', f'{where}: {labels[0]}')
        if reason is None:
            exp_label = [{'N': n, 'M': m} for n, m in zip(rq.N, rq.M)]
            if not labels or any(lab != exp_label for lab in labels) or len(labels) != len(pp):
                v('labels-differ-from-assignment', f'{where}: labels {labels[:1]} x{len(labels)}, assigned {exp_label} for '
                  f'{len(pp)} hops')
        tsp = [o['transponder'] for o in objs if 'transponder' in o]
        if len(tsp) != 2 or any(t != {'transponder-type': rq.tsp, 'transponder-mode': rq.tsp_mode} for t in tsp):
            v('transponder-objects', f'{where}: {tsp} vs type {rq.tsp} mode {rq.tsp_mode}')
        in_mode = rs[0]['path-constraints']['te-bandwidth']['trx_mode']
        if in_mode is not None and rq.tsp_mode != in_mode:
            v('mode-differs-from-request', f'{where}: request mode {in_mode}, reported {rq.tsp_mode}')
        # metrics
        for name, path in (('path-metric', pp), ('z-a-path-metric', rp if rq.bidir else None)):
            if path is None or path == []:
                if name in props and name == 'z-a-path-metric':
                    v('z-a-metric-on-unidirectional', f'{where}')
                continue
            if name not in props:
                v('metric-block-missing:' + name, f'{where}')
                continue
            got = {m['metric-type']: m['accumulative-value'] for m in props[name]}
            exp = metric_model(path[-1], rq)
            exp['path_bandwidth'] = exp_bw
            for k2, val in exp.items():
                g = got.get(k2)
                same = (g == val) if isinstance(val, str) or isinstance(g, str) else \
                    (g is not None and abs(g - val) <= 1e-9 * max(1.0, abs(val)))
                if not same:
                    v(f'metric-differs:{name}:{k2}', f'{where}: {name} {k2} = {g!r}, receiver of that direction says {val!r}')
        if kind == 'disjoint_pair' and any(e.uid == 'roadm D' for e in pp):
            tags['disjoint-pair-detour'] = 1
        if rq.bidir:
            tags['bidir'] = 1
            if 'z-a-path-metric' in props:
                got = {m['metric-type']: m['accumulative-value'] for m in props['z-a-path-metric']}
                ref = solo_za(kind)
                bad = [k2 for k2 in ref if k2 not in ('path_bandwidth',) and got.get(k2) != ref[k2]]
                if bad:
                    v('z-a-metric-is-not-this-request\'s', f'{where}: z-a {bad[0]} = {got.get(bad[0])!r}, the same request '
                      f'computed alone reports {ref[bad[0]]!r}')
        # expected CSV row
        mode = doc_modes.get((rq.tsp, rq.tsp_mode))
        rx = pp[-1]
        row = {'source': pp[0].uid, 'destination': pp[-1].uid, 'transponder-type': rq.tsp,
               'transponder-mode': rq.tsp_mode or '',
               'min required OSNR (inc. margin)': mode['OSNR'] + margin if mode else None,
               'SNR-0.1nm (min)': round(float(np.min(rx.snr_01nm)), 2), 'SNR-0.1nm (average)': round(float(np.mean(rx.snr_01nm)), 2),
               'OSNR-0.1nm (average)': round(float(np.mean(rx.osnr_ase_01nm)), 2),
               'path': ' | '.join(e.uid for e in pp)}
        if reason is None:
            row['Pass?'] = str(row['SNR-0.1nm (min)'] >= mode['OSNR'] + margin)
            row['path_bandwidth'] = round(exp_bw * 1e-9, 2)
            row['spectrum (N,M)'] = f'{list(rq.N)}, {list(rq.M)}'
        else:
            row['Pass?'] = reason
        if rq.bidir and rp:
            row['reversed path SNR-0.1nm (min)'] = round(float(np.min(rp[-1].snr_01nm)), 2)
            row['reversed path OSNR-0.1nm (average)'] = round(float(np.mean(rp[-1].osnr_ase_01nm)), 2)
        rows_expected[rq.request_id] = row
    extra = set(by_ids) - {frozenset(ids) for _, ids, _ in groups}
    if extra:
        v('unexpected-responses', f'batch {case["kinds"]}: extra responses {sorted(map(sorted, extra))}')
    # ---- CSV
    try:
        buf = io.StringIO()
        jsontocsv(resp, equipment, buf)
        rows = {r['response-id']: r for r in csv.DictReader(io.StringIO(buf.getvalue()))}
    except Exception as exc:  # noqa
        v(f'csv-export-raised:{type(exc).__name__}', f'batch {case["kinds"]}: {str(exc)[:200]}')
        rows = {}
    for rid, exp in rows_expected.items():
        transitions += 1
        if rid not in rows:
            if rows:
                v('csv-row-missing', f'{rid}')
            continue
        for col, val in exp.items():
            got = rows[rid].get(col, '')
            if val is None:
                continue
            if isinstance(val, (int, float)) and not isinstance(val, bool):
                ok = got != '' and abs(float(got) - val) <= 1e-9
            else:
                ok = got == str(val)
            if not ok:
                v(f'csv-differs:{col}', f'batch {case["kinds"]} row {rid}: column {col!r} = {got!r}, expected {val!r}')
    # ---- jsontocsv pass flag around the margin-inclusive threshold (served responses, lowest SNR moved)
    for r in responses:
        if 'path-properties' not in r:
            continue
        tspo = next(o['path-route-object']['transponder'] for o in r['path-properties']['path-route-objects']
                    if 'transponder' in o['path-route-object'])
        mode = doc_modes[(tspo['transponder-type'], tspo['transponder-mode'])]
        thr = mode['OSNR'] + margin
        for delta in (-margin - 0.5, -margin / 2, -0.01, 0.0, 0.5):
            r2 = copy.deepcopy(r)
            for m in r2['path-properties']['path-metric']:
                if m['metric-type'] == 'lowest_SNR-0.1nm':
                    m['accumulative-value'] = round(thr + delta, 2)
            buf = io.StringIO()
            jsontocsv({'response': [r2]}, equipment, buf)
            row = next(csv.DictReader(io.StringIO(buf.getvalue())))
            transitions += 1
            exp = str(round(thr + delta, 2) >= thr)
            if row['Pass?'] != exp or abs(float(row['min required OSNR (inc. margin)']) - thr) > 1e-9:
                v('csv-pass-flag-vs-margin', f'response {r["response-id"]} with lowest SNR {round(thr + delta, 2)} dB, mode OSNR '
                  f'{mode["OSNR"]} + margin {margin}: Pass? = {row["Pass?"]}, threshold column '
                  f'{row["min required OSNR (inc. margin)"]}')
                break
        tags['csv-threshold-probe'] = 1
    # the same response exported against another library that uses the same type / mode names with other thresholds
    if any('path-properties' in r for r in responses):
        eq2 = library(th, osnr_shift=1.5)
        doc_modes2 = {(t['type_variety'], m['format']): m for t in eq2['Transceiver'] for m in t.get('mode', [])}
        equipment2 = c.make_equipment(eq2)
        buf = io.StringIO()
        jsontocsv(resp, equipment2, buf)
        for row in csv.DictReader(io.StringIO(buf.getvalue())):
            r = next((x for x in responses if x['response-id'] == row['response-id']), None)
            if r is None or 'path-properties' not in r:
                continue
            tspo = next(o['path-route-object']['transponder'] for o in r['path-properties']['path-route-objects']
                        if 'transponder' in o['path-route-object'])
            mode2 = doc_modes2[(tspo['transponder-type'], tspo['transponder-mode'])]
            thr2 = mode2['OSNR'] + margin
            low = next(m['accumulative-value'] for m in r['path-properties']['path-metric'] if m['metric-type'] == 'lowest_SNR-0.1nm')
            transitions += 1
            if abs(float(row['min required OSNR (inc. margin)']) - thr2) > 1e-9 or row['Pass?'] != str(low >= thr2):
                v('csv-uses-another-library', f'response {r["response-id"]} exported against a second library (mode OSNR '
                  f'{mode2["OSNR"]}): threshold column {row["min required OSNR (inc. margin)"]}, Pass? {row["Pass?"]}; expected '
                  f'{thr2} / {low >= thr2}')
                break
        tags['csv-second-library'] = 1
    return {'violations': viol[:8], 'transitions': transitions, 'traces': 0 if viol else 1,
            'nontrivial': len(set(case['kinds'])) > 1 or 'agg' in ''.join(case['kinds']) or 'bidir' in ''.join(case['kinds']),
            'tags': tags, 'outcomes': [k for k in tags if k.startswith('outcome:')], 'sample': case}


def main(rep, tier, seed):
    cases = [{'kinds': [k]} for k in KINDS]
    cases += [{'kinds': list(p)} for p in itertools.permutations(KINDS, 2)]
    cases += [{'kinds': list(p)} for p in itertools.permutations(KINDS, 3)]
    if tier == 'thorough':
        cases += [{'kinds': list(p)} for p in itertools.permutations(KINDS, 4)]
    else:
        quad = itertools.permutations(KINDS, 4)
        cases += [{'kinds': list(p)} for i, p in enumerate(quad) if i % 160 == seed % 160]
    results, stats = engine.run_pool('checks.c19', cases, horizon=600, chunksize=4)
    rep.absorb(results)
    rep.cov['bound'] = (f'every single outcome and every ordered pair of {len(KINDS)} outcome kinds, '
                        f'every ordered triple, {"every ordered quadruple" if tier == "thorough" else "1/160 of the ordered quadruples"}, on an asymmetric '
                        '5-site network (line + detour + one-way spur) with system margin 2 dB and penalty tables; per served response 5 lowest-SNR values '
                        'around the margin-inclusive threshold through jsontocsv')
    rep.cov['space_size'] = len(cases)
    rep.cov['exhaustive'] = not stats['budget_hit'] and len(results) == len(cases)
    rep.cov['rule'] = ('a case = one batch through planning(), results_to_json and jsontocsv; transitions = responses / CSV rows '
                       'compared with the model built from the returned requests and propagated paths (ids and summed '
                       'bandwidth, hop list, transponder type/mode, N/M labels, every metric of the right direction rounded to 2 '
                       'decimals, reason without labels for blocked requests, z-a metrics for bidirectional ones; CSV values, '
                       'threshold column = mode OSNR + margin, pass flag). Non-trivial: mixed outcomes / aggregation / bidir.')
    rep.assumptions += ['the menu entries are checked to produce the outcome they were built for (else reported as '
                        'menu-outcome-differs)']
    need = {'outcome:None', 'outcome:NO_PATH_WITH_CONSTRAINT', 'outcome:NO_FEASIBLE_BAUDRATE_WITH_SPACING',
            'outcome:NO_FEASIBLE_MODE', 'outcome:MODE_NOT_FEASIBLE', 'outcome:NO_SPECTRUM', 'outcome:NOT_ENOUGH_RESERVED_SPECTRUM',
            'outcome:NO_PATH', 'disjoint-pair-detour'}
    rep.require(need <= set(rep.tags), f'outcome kinds not all produced: missing {sorted(need - set(rep.tags))}')
