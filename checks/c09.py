"""C09 - designed gains close the power budget and follow the documented power rule.

Deviation-bounded enumeration over the C08 topology/Span space extended with the rule parameters (delta_power_range,
slope, reference span loss, VOA optimisation, SI power, ROADM target); real designed_network; three oracle layers:
(1) budget consistency between consecutive amplifiers, (2) the documented rule where the operator set no offset and
"kept unless saturating" where they did, (3) reproduction of the design powers by propagating the design comb.
"""
import math

from mc import engine
from checks import common as c
from checks import topogen as tg

CHAINS = ['F80', 'F10', 'F120', 'F200', 'F80_F60', 'F40_U_F30', 'U_F60', 'F60_U', 'E_F80', 'F80_E', 'F80_E_F70',
          'Efull_F100_Efull', 'Etype_F100_Egain', 'Evoa_F90_Edp', 'F100lumped', 'F200att', 'F100_F100_F100', 'Ehot_F80',
          'Egainhot_F100', 'F0.05', 'F80_Evoa', 'Evoa_F100']
SPACE = dict({'graph': ['P2', 'P3', 'TRI'], 'chain': CHAINS, 'chain_rev': ['F80', 'F200', 'F40_U_F30', 'F10', 'F80_Evoa'],
              'eq': ['test', 'example', 'example_p228'],
              'dpr': [[-2, 3, 0.5], [0, 0, 0.5], [0, 3, 3], [-1, 1, 0.1], [-1.2, 1.3, 0.5], [0, 0, 0]],
              'slope': [0.3, 0.5], 'loss_ref': [20, 17], 'voa_auto': [0, 1], 'si_power': [0, 3, -2, 5],
              'roadm_target': [-20, -25, -12, -17.3], 'band_spacing': [None, 37.5e9, 100e9],
              # the library object has already served the design of another line (long fibre, other chain) in this process
              'used_library': [0, 1]}, **tg.SPAN_SPACE)


def chain(kind):
    e, f = c.edfa, c.fiber
    if kind == 'Ehot_F80':          # operator offset that saturates the amplifier (p_max 21/23 dBm, 95 channels)
        return [e('std_low_gain', delta_p=6.0), f(80), e()]
    if kind == 'Egainhot_F100':     # operator gain (used in gain mode) that would saturate
        return [e('std_medium_gain', gain_target=26.0, out_voa=1.0), f(100), e('std_medium_gain', gain_target=25.0)]
    return tg.chain(kind)


def topology(case):
    sites, links = tg.GRAPHS[case['graph']]
    ls = []
    for k, (a, b) in enumerate(links):
        if k == 0:
            fwd, rev = chain(case['chain']), chain(case['chain_rev'])
        else:
            fwd, rev = chain(['F80', 'F80_E_F70', 'F40_U_F30'][k % 3]), chain(['F80', 'F120'][k % 2])
        ls.append((a, b, fwd, rev))
    return c.build_topology(sites, ls, roadm_params=tg.roadm_params(case, sites))


def round_to_step(x, step):
    """documented rounding to the step; returns (value, is_tie)"""
    step = round(step, 1)
    if step >= 0.01:
        q = x / step
        tie = abs(abs(q - math.floor(q)) - 0.5) < 1e-9
        return round(round(q) * step, 1), tie
    return round(x, 2), abs(abs(x * 100 - math.floor(x * 100)) - 0.5) < 1e-7


def run_trxline(case):
    """ROADM-less line trx - amplifier - 80 km - amplifier - 60 km - amplifier - trx: the first amplifier's gain closes the
    budget from the transceiver's launch power, and propagating the design comb at that launch power reproduces the design"""
    import numpy as np
    from gnpy.core.elements import Edfa
    viol = []
    eq = tg.library({'eq': 'test', 'mode': case['mode'], 'si_power': case['si_power']})
    if case['tx_power_dbm'] is not None:
        eq['SI'][0]['tx_power_dbm'] = case['tx_power_dbm']
    els = [{'uid': 'trx A', 'type': 'Transceiver'}, {'uid': 'trx B', 'type': 'Transceiver'},
           dict(c.edfa(), uid='amp1'), dict(c.fiber(80), uid='f1'), dict(c.edfa(), uid='amp2'), dict(c.fiber(60), uid='f2'),
           dict(c.edfa(), uid='amp3')]
    for e in els:
        e.setdefault('metadata', {'location': {'latitude': 0, 'longitude': 0, 'city': 'x', 'region': 'y'}})
    order = ['trx A', 'amp1', 'f1', 'amp2', 'f2', 'amp3', 'trx B']
    topo = {'elements': els, 'connections': [{'from_node': a, 'to_node': b} for a, b in zip(order, order[1:])]}
    try:
        net, equipment, req, ref = c.design(topo, eq, source='trx A', destination='trx B')
    except Exception as exc:  # noqa
        return {'violations': [dict(fingerprint=f'trx-line-design-raised:{type(exc).__name__}', what=str(exc)[:200], case=case)],
                'transitions': 1}
    si = equipment['SI']['default']
    pref = si.power_dbm
    launch = si.tx_power_dbm if si.tx_power_dbm is not None else pref
    amps = {n.uid: n for n in net.nodes() if isinstance(n, Edfa)}
    a1 = amps['amp1']
    transitions = 1
    if equipment['Span']['default'].power_mode:
        exp = pref + a1.delta_p - launch
        if abs(a1.effective_gain - exp) > 1e-6:
            viol.append(dict(fingerprint='first-amplifier-gain-does-not-close-budget:trx-line', case=case,
                             what=f'reference power {pref} dBm, transceiver power {launch} dBm (SI tx_power_dbm '
                                  f'{case["tx_power_dbm"]!r}): first amplifier gain {a1.effective_gain:.4f} dB, budget '
                                  f'reference + offset {a1.delta_p} - launch = {exp:.4f} dB'))
    # propagation of the design comb launched at the transceiver power
    path = [next(n for n in net.nodes() if n.uid == u) for u in order]
    rq = c.make_request(equipment, 'trx A', 'trx B', tx_power_dbm=launch)
    try:
        pth, sinfo, rec = c.propagate_recorded(path, rq, equipment)
        for st in rec.steps:
            if st['cls'] != 'Edfa' or not equipment['Span']['default'].power_mode:
                continue
            amp = amps[st['uid']]
            post = st['post']
            sig = 10 * math.log10(float((post['pch'] * post['sr']).sum() / len(post['pch']))) + 30
            tot = 10 * math.log10(float(post['pch'].sum() / len(post['pch']))) + 30
            exp = pref + amp.delta_p - amp.out_voa
            transitions += 1
            if not (sig - 1e-6 <= exp <= tot + 1e-6) and st['el'].effective_gain >= amp.effective_gain - 1e-9:
                viol.append(dict(fingerprint='design-power-not-reproduced:trx-line', case=case,
                                 what=f'{st["uid"]}: mean channel power after the amplifier {sig:.4f}..{tot:.4f} dBm, design says '
                                      f'{exp:.4f} dBm (launch {launch} dBm, reference {pref} dBm)'))
                break
    except Exception as exc:  # noqa
        viol.append(dict(fingerprint=f'trx-line-propagation-raised:{type(exc).__name__}', what=str(exc)[:200], case=case))
    return {'violations': viol[:4], 'transitions': transitions, 'traces': 0 if viol else 1, 'nontrivial': launch != pref,
            'tags': {'trx-line': 1}, 'outcomes': ['trx-line'], 'sample': case}


def run_sweep(case):
    """the power sweep of transmission_simulation (behind gnpy-transmission-example): the network is designed again for every
    power of SI.power_range_db; the fibres (connector losses with EOL, pads) stay as the first design left them, and the
    sweep visits the documented powers"""
    from gnpy.core.elements import Fiber
    from gnpy.tools.worker_utils import transmission_simulation
    viol = []
    eq = tg.library(case)
    eq['SI'][0]['power_range_db'] = list(case['range'])
    topo = topology(dict(case, graph='P2', chain_rev='F80'))
    try:
        net, equipment, req, ref = c.design(topo, eq, source='trx A', destination='trx B')
    except Exception as exc:  # noqa
        return {'status': 'rejected', 'tags': {f'design-raised:{type(exc).__name__}': 1}}

    def fibres():
        return {n.uid: (n.params.con_in, n.params.con_out, n.params.att_in, n.params.length) for n in net.nodes() if isinstance(n, Fiber)}
    before = fibres()
    try:
        path, props, powers, infos = transmission_simulation(equipment, net, req, ref)
    except Exception as exc:  # noqa
        return {'violations': [dict(fingerprint=f'sweep-raised:{type(exc).__name__}', what=str(exc)[:200], case=case)], 'transitions': 1}
    after = fibres()
    if after != before:
        u = next(k for k in before if before[k] != after.get(k))
        viol.append(dict(fingerprint='sweep-changed-fibre-settings', what=f'power sweep {case["range"]} with EOL {case["EOL"]}: fibre {u} '
                         f'(con_in, con_out, att_in, length) {before[u]} before, {after[u]} after', case=case))
    lo, hi, step = case['range']
    exp = [lo + i * step for i in range(int(round((hi - lo) / step)) + 1)] if step else [0]
    if power_mode_of(case) and [round(float(x), 6) for x in powers] != [round(x + case.get('si_power', 0), 6) for x in exp]:
        viol.append(dict(fingerprint='sweep-powers', what=f'sweep {case["range"]} around {case.get("si_power", 0)} dBm visited '
                         f'{[float(x) for x in powers]}', case=case))
    return {'violations': viol, 'transitions': len(props), 'traces': 0 if viol else 1, 'nontrivial': case['EOL'] != 0,
            'tags': {'power-sweep': 1}, 'sample': case}


def power_mode_of(case):
    return case.get('mode', 'power') == 'power'


def run_case(case):
    if case.get('kind') == 'sweep':
        return run_sweep(case)
    import numpy as np
    from gnpy.core.elements import Edfa, Multiband_amplifier, Fiber, RamanFiber, Fused, Roadm, Transceiver
    if case.get('kind') == 'trxline':
        return run_trxline(case)
    from gnpy.core.exceptions import ConfigurationError
    from gnpy.core.utils import automatic_nch
    viol = []

    def v(fp, what, **kw):
        viol.append(dict(fingerprint=fp, what=what, observed=kw, case=case))
    eq = tg.library(case)
    topo = topology(case)
    user = {e['uid']: e for e in topo['elements']}
    try:
        warm = topology(dict(case, graph='P2', chain='F200', chain_rev='F80_E_F70')) if case.get('used_library') else None
        net, equipment, req, ref = c.design(topo, eq, warm=warm)
    except Exception as exc:  # noqa  (judged by C08)
        if type(exc) is ConfigurationError:
            return {'status': 'rejected', 'tags': {'design-rejected': 1}}
        return {'status': 'rejected', 'tags': {f'design-raised:{type(exc).__name__}': 1}}
    span = equipment['Span']['default']
    si = equipment['SI']['default']
    for d in c.settings_vs_document(equipment, eq)[:2]:
        v('library-settings-changed', f'after design, {d}')
    power_mode = span.power_mode
    lo, hi, step = span.delta_power_range_db
    pref = si.power_dbm
    if case.get('band_spacing') and not si.use_si_channel_count_for_design:
        # design load counted on the design band of the ROADM degrees (use_si_channel_count_for_design is off by default)
        nch = automatic_nch(tg.CB['f_min'], tg.CB['f_max'], case['band_spacing'])
    else:
        nch = automatic_nch(si.f_min, si.f_max, si.spacing)
    pref_tot = pref + 10 * math.log10(nch)
    tags = {}
    transitions = 0
    unjudged = 0
    for start in [n for n in net.nodes() if isinstance(n, Roadm)]:
        for first in net.successors(start):
            if isinstance(first, Transceiver):
                continue
            # walk the OMS
            chain_nodes = []
            x = first
            while not isinstance(x, (Roadm, Transceiver)):
                chain_nodes.append(x)
                x = next(iter(net.successors(x)))
            end = x
            if any(isinstance(n, (RamanFiber, Multiband_amplifier)) for n in chain_nodes):
                continue
            if any(isinstance(n, Fiber) and np.size(n.params.loss_coef) > 1 for n in chain_nodes):
                continue
            net_prev = start.get_per_degree_ref_power(first.uid) - pref
            acc = 0.0
            for i, n in enumerate(chain_nodes):
                if not isinstance(n, Edfa):
                    acc += float(n.loss)
                    continue
                transitions += 1
                u = user.get(n.uid, {}).get('operational', {}) if n.uid in user else {}
                u_dp, u_gain, u_voa = u.get('delta_p'), u.get('gain_target'), u.get('out_voa')
                u_type = user.get(n.uid, {}).get('type_variety') if n.uid in user else None
                in_voa = n.in_voa or 0.0
                D = n.delta_p if power_mode else n._delta_p
                where = f'{n.uid} ({n.params.type_variety}) in OMS {start.uid}->{end.uid}'
                # ---- (1) budget consistency
                exp_gain = acc + in_voa + D - net_prev
                if abs(n.effective_gain - exp_gain) > 1e-6:
                    v('gain-does-not-close-budget', f'{where}: gain {n.effective_gain:.6f} dB, loss since previous amplifier '
                      f'{acc:.6f} + in_voa {in_voa} + offset {D:.6f} - previous net offset {net_prev:.6f} = {exp_gain:.6f} dB',
                      got=n.effective_gain, expected=exp_gain)
                # ---- (2) rule
                nxt = chain_nodes[i + 1] if i + 1 < len(chain_nodes) else end
                next_loss = 0.0
                for m in chain_nodes[i + 1:]:
                    if isinstance(m, Edfa):
                        break
                    next_loss += float(m.loss)
                model = equipment['Edfa'][n.params.type_variety]
                p_max, flatmax = model.p_max, model.gain_flatmax
                netk = D - n.out_voa
                uses_rule = u_dp is None and (power_mode or u_gain is None)
                if uses_rule:
                    if isinstance(nxt, Roadm):
                        rule, tie = 0.0, False
                    else:
                        r, tie = round_to_step((next_loss - span.span_loss_ref) * span.power_slope, step)
                        rule = min(hi, max(lo, r))
                    if tie:
                        unjudged += 1
                    else:
                        dp0 = rule + (u_voa or 0.0)          # offset before the output VOA when the operator fixed the VOA
                        gain0 = acc + in_voa + dp0 - net_prev
                        if u_type:
                            red = max(0.0, pref_tot + dp0 - p_max)
                        else:
                            red = max(0.0, pref_tot + dp0 - p_max, gain0 - (flatmax + span.target_extended_gain))
                        exp_net = rule - red
                        if abs(netk - exp_net) > 1e-6:
                            v('offset-not-documented-rule' + (':before-roadm' if isinstance(nxt, Roadm) else '') +
                              (':reduced' if red > 0 else ''),
                              f'{where}: offset after VOA {netk:.4f} dB; documented rule: slope {span.power_slope} x (next span '
                              f'loss {next_loss:.3f} - ref {span.span_loss_ref}) rounded to {step} and clamped to [{lo}, {hi}] = '
                              f'{rule}, reduction for saturation/capability {red:.4f} -> {exp_net:.4f}', got=netk, expected=exp_net)
                        if red > 0:
                            tags['reduced'] = 1
                        if rule in (lo, hi) and lo != hi:
                            tags['clamped'] = 1
                        if rule not in (lo, hi, 0.0):
                            tags['rounded-inside-range'] = 1
                elif power_mode and u_dp is not None:
                    red = max(0.0, pref_tot + u_dp - p_max)
                    if abs(D - (u_dp - red)) > 1e-6 and not (n.params.out_voa_auto and u_voa is None):
                        v('operator-offset-not-kept', f'{where}: operator delta_p {u_dp} became {D:.4f} (allowed reduction '
                          f'{red:.4f})', got=D, expected=u_dp - red)
                    if red > 0:
                        tags['operator-offset-saturated'] = 1
                    else:
                        tags['operator-offset-kept'] = 1
                elif not power_mode and u_gain is not None:
                    if n.effective_gain > u_gain + 1e-9:
                        v('operator-gain-raised', f'{where}: operator gain {u_gain} became {n.effective_gain}')
                    pout_user = pref_tot + net_prev - acc + u_gain
                    red = max(0.0, pout_user - p_max)
                    if n.effective_gain < u_gain - red - in_voa - 1e-6:
                        v('operator-gain-reduced-more-than-needed', f'{where}: operator gain {u_gain} became {n.effective_gain:.4f}'
                          f'; design output {pout_user:.3f} dBm vs p_max {p_max} allows a reduction of {red:.4f} dB',
                          got=n.effective_gain, expected=u_gain - red)
                    if red == 0 and abs(n.effective_gain - u_gain) > 1e-9:
                        v('operator-gain-not-kept', f'{where}: operator gain {u_gain} became {n.effective_gain:.6f} although '
                          f'the design output {pout_user:.3f} dBm is below p_max {p_max}', got=n.effective_gain, expected=u_gain)
                    tags['operator-gain-saturated' if red > 0 else 'operator-gain-kept'] = 1
                if n.out_voa and u_voa is None:
                    tags['voa-optimised'] = 1
                # total design power never above p_max
                if pref_tot + D > p_max + 1e-6:
                    v('design-power-above-p_max', f'{where}: design total power {pref_tot + D:.3f} dBm > p_max {p_max}')
                net_prev = netk
                acc = 0.0
    # ---- (3) reproduction by propagating the design comb (P2 / first link only, power mode or gain mode alike)
    repro = 0
    # (with a design band of another spacing the design comb is not the SI comb: only parts 1-2 are judged)
    if not viol and not case.get('band_spacing'):
        for path in c.all_simple_trx_paths(net):
            if any(isinstance(n, (RamanFiber, Multiband_amplifier)) for n in path):
                continue
            if any(isinstance(n, Fiber) and np.size(n.params.loss_coef) > 1 for n in path):
                continue
            rq = c.make_request(equipment, path[0].uid, path[-1].uid)
            try:
                pth, sinfo, rec = c.propagate_recorded(path, rq, equipment)
            except Exception as exc:  # noqa
                v(f'design-comb-propagation-raised:{type(exc).__name__}', str(exc)[:200])
                break
            prev_roadm = None
            for k, st in enumerate(rec.steps):
                post = st['post']
                el = st['el']
                sig = 10 * math.log10(float((post['pch'] * post['sr']).sum())) + 30
                tot = 10 * math.log10(float(post['pch'].sum())) + 30
                if st['cls'] == 'Roadm' and not st['kwargs']['degree'].startswith('trx'):
                    net_roadm = next(n for n in net.nodes() if n.uid == st['uid'])
                    tgt = net_roadm.get_per_degree_ref_power(st['kwargs']['degree'])
                    pch = 10 * np.log10(post['pch']) + 30
                    pin = 10 * np.log10(st['pre']['pch']) + 30
                    if (pin >= tgt).all() and not np.allclose(pch, tgt, atol=1e-6):
                        v('roadm-output-not-target', f'{st["uid"]} -> {st["kwargs"]["degree"]}: {pch[:2].tolist()} dBm, target {tgt}')
                if st['cls'] == 'Edfa':
                    amp = next(n for n in net.nodes() if n.uid == st['uid'])
                    Dk = amp.delta_p if power_mode else amp._delta_p
                    exp = pref_tot + Dk - amp.out_voa
                    # the copy that propagated may have clamped its gain if the line noise pushed it into saturation
                    ripple = float(np.ptp(amp.params.gain_ripple)) > 0 or amp.params.type_def == 'advanced_model'
                    tol = 0.05 if ripple else 1e-6
                    repro += 1
                    # the upstream ROADM may have been unable to reach its target (input below target): then the whole OMS
                    # runs lower than designed - only judge when the launch of this OMS was on target
                    if sig - tol <= exp <= tot + tol:
                        continue
                    pre = st['pre']
                    if el.effective_gain < amp.effective_gain - 1e-9:
                        tags['propagation-saturated'] = 1
                        continue
                    if exp > tot + tol and launch_below_target(rec.steps[:k], net, pref):
                        tags['launch-below-target'] = 1
                        continue
                    v('design-power-not-reproduced', f'{st["uid"]}: propagating the design comb gives signal {sig:.4f} / total '
                      f'{tot:.4f} dBm after the amplifier and its VOA, design says {exp:.4f} dBm', got=sig, expected=exp)
                    break
            if viol:
                break
    return {'violations': viol[:8], 'transitions': transitions + repro, 'traces': 0 if viol else 1, 'nontrivial': bool(tags),
            'tags': tags, 'unjudged': unjudged, 'outcomes': [case['chain']], 'sample': case}


def launch_below_target(steps, net, pref):
    """True when the last ROADM crossed before this amplifier could not reach its target (input below target)"""
    import numpy as np
    for st in reversed(steps):
        if st['cls'] == 'Roadm':
            r = next(n for n in net.nodes() if n.uid == st['uid'])
            tgt = r.get_per_degree_ref_power(st['kwargs']['degree'])
            pch = 10 * np.log10(st['post']['pch']) + 30
            return bool((pch < tgt - 1e-6).any())
    return False


def main(rep, tier, seed):
    sp = engine.Space(SPACE, bases=[{}, {'graph': 'P3', 'chain': 'F200', 'dpr': [-1, 1, 0.1], 'eq': 'example', 'voa_auto': 1},
                                    {'chain': 'Etype_F100_Egain', 'mode': 'gain', 'roadm_target': -17.3, 'si_power': 3}],
                      constraint=tg.consistent)
    d = 2 if tier == 'quick' else 3
    bases = engine.pick_bases(sp.bases, seed, tier, n_quick=2)
    cases = [{k: x[k] for k in SPACE} for x in sp.enumerate(d, bases=bases)]
    # always: one deviation around a point where the required power exceeds every model and two models tie within 0.3 dB
    hot = {'eq': 'example_p228', 'si_power': 5, 'chain': 'F80_E_F70'}
    seen = {engine.jdump(x) for x in cases}
    for x in sp.enumerate(1, bases=[hot]):
        y = {k: x[k] for k in SPACE}
        if engine.jdump(y) not in seen:
            cases.append(y)
    # lines that start at a transceiver (no ROADM): launch power = SI tx_power_dbm if given, else the reference power
    for si_power in (0, 2, -1.5):
        for txp in (None, 0, 0.0, 1.5, -3):
            for mode in ('power', 'gain'):
                cases.append({'kind': 'trxline', 'si_power': si_power, 'tx_power_dbm': txp, 'mode': mode})
    for chain_ in ('F80_E_F70', 'F40_U_F30', 'F200'):
        for eol in (0, 1.5):
            for rng in ([-1, 1, 1], [0, 2, 0.5], [0, 0, 0.5]):
                for mode in ('power', 'gain'):
                    cases.append({'kind': 'sweep', 'chain': chain_, 'EOL': eol, 'range': rng, 'mode': mode, 'eq': 'test',
                                  'si_power': 1 if chain_ == 'F200' else 0})
    results, stats = engine.run_pool('checks.c09', cases, horizon=300)
    rep.absorb(results)
    rep.cov['bound'] = f'<= {d} deviations from base points {bases} over {list(SPACE)}'
    rep.cov['space_size'] = len(cases)
    rep.cov['exhaustive'] = not stats['budget_hit'] and len(results) == len(cases)
    rep.cov['rule'] = ('a case = one designed network; transitions = amplifiers judged (budget equation + documented rule / '
                       'operator values kept) + amplifiers whose design power was reproduced by propagating the design comb. '
                       'Non-trivial: clamp, rounding inside the range, saturation reduction, optimised VOA or operator value '
                       'involved. Rounding ties are unjudged; Raman / multiband / per-frequency-loss spans are left to C08/C17.')
    rep.assumptions += ['span losses are read from the designed elements (C05 checks them against the documents)',
                        'design comb = automatic_nch(SI f_min, f_max, spacing) channels at SI power']
    for k in ('clamped', 'rounded-inside-range', 'reduced', 'voa-optimised', 'power-sweep'):
        rep.require(rep.tags.get(k, 0) >= 1, f'{k} never observed')
