"""C12 - requests declared disjoint never share a link in either direction.

Site graphs (graph atlas, 3-5 sites) x length assignments x link styles; on each designed network: every ordered pair of
(source, destination) pairs as a two-request synchronisation group x include variants (soundness + completeness by brute
force over all pairs of simple paths), plus group structures on 3-4 requests (triple, two overlapping pairs, pair +
unrelated request, duplicated group, shared request listed first / last) for soundness.
Real planning() front half: requests_from_json, correct_json_route_list, disjunctions_from_json,
deduplicate_disjunctions, requests_aggregation, compute_path_dsjctn.
"""
import itertools

from mc import engine
from checks import common as c
from checks import reqgen as rg


def links_of(path_uids):
    r = [u for u in path_uids if u.startswith('roadm ')]
    return {frozenset(p) for p in zip(r, r[1:])}


def run_front(net, equipment, doc):
    from gnpy.tools.json_io import requests_from_json, disjunctions_from_json
    from gnpy.topology.request import correct_json_route_list, deduplicate_disjunctions, requests_aggregation, \
        compute_path_dsjctn
    rqs = requests_from_json(doc, equipment)
    rqs = correct_json_route_list(net, rqs)
    dsjn = disjunctions_from_json(doc)
    dsjn = deduplicate_disjunctions(dsjn)
    rqs, dsjn = requests_aggregation(rqs, dsjn)
    pths = compute_path_dsjctn(net, equipment, rqs, dsjn)
    return rqs, dsjn, pths


def include_variants(net, topo, src, dst, k):
    """include lists for one request: none, a ROADM (STRICT / LOOSE), a fibre in the middle of an OMS (STRICT)"""
    from gnpy.core.elements import Roadm
    roadms = sorted(n.uid for n in net.nodes() if isinstance(n, Roadm))
    mids = [r for r in roadms if r not in (src.replace('trx', 'roadm'), dst.replace('trx', 'roadm'))]
    out = [None]
    if mids:
        out.append([(mids[k % len(mids)], 'STRICT')])
        out.append([(mids[(k + 1) % len(mids)], 'LOOSE')])
    s = src.split()[-1]
    from gnpy.core.elements import Fiber
    fibres = sorted(n.uid for n in net.nodes() if isinstance(n, Fiber) and n.uid.startswith(f'{s}>'))
    if fibres:
        out.append([(fibres[k % len(fibres)], 'STRICT')])
    return out


def run_case(case):
    from gnpy.core.elements import Transceiver
    from gnpy.core.exceptions import DisjunctionError, ServiceError
    from gnpy.topology.spectrum_assignment import build_oms_list
    viol = []
    topo = rg.mesh_topology(case['n'], [tuple(e) for e in case['edges']], case['lengths'], case['style'])
    net, equipment, _, _ = c.design(topo, c.eqpt_json('test'))
    build_oms_list(net, equipment)
    trx = sorted((n for n in net.nodes() if isinstance(n, Transceiver)), key=lambda x: x.uid)
    pairs = [(s, d) for s in trx for d in trx if s is not d]
    if case.get('max_pairs'):
        pairs = pairs[:case['max_pairs']]
    paths = {}
    for s, d in pairs:
        paths[(s.uid, d.uid)] = [[e.uid for e in p] for p in rg.simple_paths(net, s, d)]
    tags = {}
    transitions = 0
    traces = 0

    def sat(p, inc):
        """STRICT members of the include list must be crossed in their relative order"""
        return rg.contains_in_order(p, [u for u, h in (inc or []) if h == 'STRICT'])

    def judge(doc, reqs, groups, where, complete):
        nonlocal transitions, traces
        transitions += 1
        try:
            rqs, dsjn, pths = run_front(net, equipment, doc)
            err = None
        except DisjunctionError as exc:
            err = exc
        except ServiceError as exc:
            viol.append(dict(fingerprint='service-error-on-valid-group', what=f'{where}: {exc}'))
            return
        except Exception as exc:  # noqa
            viol.append(dict(fingerprint=f'disjunction-computation-raised:{type(exc).__name__}', what=f'{where}: '
                             f'{type(exc).__name__}: {str(exc)[:160]}'))
            return
        if complete:
            (ra, rb) = reqs
            pa = [p for p in paths[(ra['source'], ra['destination'])] if sat(p, ra.get('_inc'))]
            pb = [p for p in paths[(rb['source'], rb['destination'])] if sat(p, rb.get('_inc'))]
            exists = any(not (links_of(x) & links_of(y)) for x in pa for y in pb)
            if err is not None and exists:
                mid = any(not u.startswith('roadm') for r in reqs for u, _ in (r.get('_inc') or []))
                viol.append(dict(fingerprint='disjoint-solution-missed' + (':line-element-include' if mid else ''),
                                 what=f'{where}: DisjunctionError although a link-disjoint pair satisfying the STRICT '
                                      f'constraints exists'))
                return
            if err is None and not exists:
                # fall through to the soundness test: it will flag the overlap / constraint
                tags['no-solution-exists'] = 1
            if err is not None:
                tags['disjunction-error'] = 1
                traces += 1
                return
        elif err is not None:
            tags['disjunction-error'] = 1
            traces += 1
            return
        by_id = {}
        for rq, p in zip(rqs, pths):
            for rid in rq.request_id.split(' | '):
                by_id[rid] = (rq, [e.uid for e in p], p)
        ok = True
        for g in groups:
            for x, y in itertools.combinations(g, 2):
                if str(x) not in by_id or str(y) not in by_id or by_id[str(x)] is by_id[str(y)]:
                    continue
                common = links_of(by_id[str(x)][1]) & links_of(by_id[str(y)][1])
                if common:
                    viol.append(dict(fingerprint='disjoint-requests-share-link', what=f'{where}: requests {x} and {y} of group {g} '
                                     f'share {sorted(map(sorted, common))}: {[u for u in by_id[str(x)][1] if u.startswith("roadm")]} / '
                                     f'{[u for u in by_id[str(y)][1] if u.startswith("roadm")]}'))
                    ok = False
        for r in reqs:
            rq, uids, p = by_id[r['request-id']]
            if not p:
                if not hasattr(rq, 'blocking_reason'):
                    viol.append(dict(fingerprint='empty-path-without-reason', what=f'{where}: request {r["request-id"]}'))
                    ok = False
                continue
            probs = rg.valid_path(net, p, r['source'], r['destination'])
            if probs:
                viol.append(dict(fingerprint='invalid-route', what=f'{where}: request {r["request-id"]} route {uids} {probs[0]}'))
                ok = False
            strict = [u for u, h in (r.get('_inc') or []) if h == 'STRICT']
            in_group = any(r['request-id'] in map(str, g) for g in groups)
            if strict and not rg.contains_in_order(uids, strict):
                viol.append(dict(fingerprint='strict-include-ignored' + (':in-group' if in_group else ''),
                                 what=f'{where}: request {r["request-id"]} route {[u for u in uids if u.startswith("roadm")]} '
                                      f'does not cross STRICT {strict}'))
                ok = False
        if ok:
            traces += 1
            short = {k: min(len(links_of(p)) for p in v) for k, v in paths.items()}
            if any(len(links_of(by_id[r['request-id']][1])) > short[(r['source'], r['destination'])] for r in reqs
                   if by_id[r['request-id']][2]):
                tags['rerouted'] = 1

    def mk(rid, s, d, inc=None):
        r = rg.request(rid, s, d, include=inc)
        r['_inc'] = inc
        return r

    def doc_of(reqs, groups):
        return rg.service([{k: v for k, v in r.items() if k != '_inc'} for r in reqs], groups)
    # ---- pairs: soundness + completeness
    pp = [(s.uid, d.uid) for s, d in pairs]
    k = 0
    for (a, b) in itertools.product(pp, repeat=2):
        k += 1
        for ia, inc_a in enumerate(include_variants(net, topo, a[0], a[1], k)):
            for inc_b in include_variants(net, topo, b[0], b[1], k + 1):
                reqs = [mk('1', a[0], a[1], inc_a), mk('2', b[0], b[1], inc_b)]
                judge(doc_of(reqs, [['1', '2']]), reqs, [['1', '2']],
                      f'pair {a[0]}->{a[1]} (include {inc_a}) / {b[0]}->{b[1]} (include {inc_b}) on {case["edges"]} '
                      f'{case["lengths"]}/{case["style"]}', True)
        if len(viol) > 10:
            break
    # ---- group structures: soundness
    structs = case.get('structs', 0)
    if structs and len(pp) >= 3 and len(viol) <= 10:
        trip = list(itertools.permutations(pp, 3))[:structs]
        for (a, b, d3) in trip:
            for shape, groups in (('triple', [['1', '2', '3']]), ('overlap-first', [['1', '2'], ['1', '3']]),
                                  ('overlap-last', [['2', '1'], ['3', '1']]), ('pair+free', [['1', '2']]),
                                  ('duplicated', [['1', '2'], ['2', '1']]), ('chain', [['1', '2'], ['2', '3']]),
                                  # a group and a strict subset of it, in both orders: both are in force
                                  ('superset-then-subset', [['1', '2', '3'], ['2', '3']]),
                                  ('subset-then-superset', [['2', '3'], ['1', '2', '3']]),
                                  ('subset-of-first-two', [['1', '2'], ['3', '1', '2']])):
                reqs = [mk('1', *a), mk('2', *b), mk('3', *d3)]
                judge(doc_of(reqs, groups), reqs, groups, f'{shape} {a} {b} {d3} on {case["edges"]} {case["lengths"]}/'
                      f'{case["style"]}', False)
            # two groups of two requests each between the same sites, whose request ids read the same when written one
            # after the other ('1'+'23' and '12'+'3'): they are two groups
            reqs = [mk('1', *a), mk('23', *a), mk('12', *b), mk('3', *b)]
            for groups in ([['1', '23'], ['12', '3']], [['12', '3'], ['23', '1']]):
                judge(doc_of(reqs, groups), reqs, groups, f'two-groups-similar-ids {a} {b} on {case["edges"]} {case["lengths"]}/'
                      f'{case["style"]}', False)
            if len(viol) > 10:
                break
    for v in viol:
        v['case'] = case
    return {'violations': viol[:10], 'transitions': transitions, 'traces': traces, 'nontrivial': bool(tags), 'tags': tags,
            'outcomes': sorted(tags), 'sample': dict(case, groups_routed=transitions)}


def main(rep, tier, seed):
    graphs = rg.atlas_graphs(3, 5)
    cases = []
    styles = ['plain', 'ila', 'fused']
    for gi, (n, edges) in enumerate(graphs):
        if n == 5 and tier == 'quick' and (gi + seed) % 5 != 0:
            continue
        for li, lengths in enumerate(['equal', 'distinct', 'shortcut', 'asym']):
            if tier == 'quick' and n == 5 and li != (gi + seed) % 3:
                continue
            cases.append(dict(n=n, edges=[list(e) for e in edges], lengths=lengths, style=styles[(gi + li) % 3],
                              max_pairs=(6 if n == 5 else None) if tier == 'quick' else (12 if n == 5 else None),
                              structs=6 if tier == 'quick' else 24))
    results, stats = engine.run_pool('checks.c12', cases, horizon=3000, chunksize=1)
    rep.absorb(results)
    rep.cov['bound'] = (f'{len(cases)} networks (graph atlas 3-5 sites x length assignment x style); per network every ordered pair of '
                        'source/destination pairs as a 2-request group x include variants (completeness by brute force), and 6 group '
                        'structures over 3 requests')
    rep.cov['space_size'] = len(cases)
    rep.cov['evaluations'] = sum(r.get('transitions', 0) for r in results)
    rep.cov['exhaustive'] = not stats['budget_hit'] and len(results) == len(cases)
    rep.cov['rule'] = ('transitions = request groups routed by the real front half of planning(); soundness: DisjunctionError or '
                       'pairwise link-disjoint (unordered ROADM pairs), valid, STRICT-respecting paths; completeness for one pair: a '
                       'solution is found iff the brute-force search over all pairs of simple paths finds one. Non-trivial: the '
                       'group forces a re-route or a DisjunctionError.')
    rep.assumptions += ['parallel links between two sites are not in the alphabet (documented as unsupported)',
                        'candidate paths are far below the 80-element cutoff']
    for k in ('rerouted', 'disjunction-error'):
        rep.require(rep.tags.get(k, 0) >= 1, f'{k} never observed')
