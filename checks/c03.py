"""C03 - fibre NLI equals the GN-model closed form and obeys its scaling laws.

Deviation-bounded enumeration of fibre configurations x complete enumeration of small combs (every assignment of
channel types for n <= 4, power patterns, all input permutations), real Fiber objects built by network_from_json,
real NliSolver.compute_nli / Fiber.__call__.  Oracle: independent scalar implementation of eq. 120/123 of
arXiv:1209.0394 evaluated for every sampling convention the paper leaves open (envelope), plus the scaling laws.
"""
import itertools
import math

from mc import engine
from checks import common as c

H_TYPES = [(32e9, 50e9), (64e9, 75e9), (16e9, 25e9)]
POWER_PATTERNS = ['flat', 'ramp', 'hot1']
N2 = 2.6e-20
C0 = 299792458.0

FIBRE_SPACE = {
    'length': [80.0, 0.5, 25.0, 200.0],
    'loss': [0.2, 0.17, 0.3],
    'dispersion': [1.67e-5, 4e-6, 2.2e-5],
    'slope': [None, 60.0, 0.0],       # 0.0: a slope that is given and happens to be zero (not the same model as no slope)
    'nl': ['area83', 'area50', 'gamma1.3', 'gamma2.0'],
    'con_in': [0.0, 0.5],
    'att_in': [0.0, 2.0],
    'kind': ['Fiber', 'RamanFiber'],      # a RamanFiber without pumps, Raman computation off: the same closed form
    'loss_table': [False, True, 'desc'],      # per-frequency loss table, listed by increasing / decreasing frequency
    'sim': ['plain', 'computed_channels', 'computed_number', 'raman_off_explicit'],
    # reference point of the fibre description (gamma / effective area / dispersion are given AT this point): default
    # 1550 nm, or given as a frequency or as a wavelength
    'ref': [None, 'f196', 'w1530'],
}


def ref_wavelength(fc):
    return {None: 1550e-9, 'f196': C0 / 196e12, 'w1530': 1530e-9}[fc.get('ref')]


def fibre_json(fc):
    p = {'length': fc['length'], 'length_units': 'km', 'loss_coef': fc['loss'], 'con_in': fc['con_in'], 'con_out': 0.3,
         'att_in': fc.get('att_in', 0.0)}
    if fc.get('ref') == 'f196':
        p['ref_frequency'] = 196e12
    elif fc.get('ref') == 'w1530':
        p['ref_wavelength'] = 1530e-9
    if fc['slope'] is not None:
        p['dispersion_slope'] = fc['slope']      # read from the element parameters (the library entry ignores it)
    if fc['loss_table']:
        p['loss_coef'] = {'value': [fc['loss'] + 0.02, fc['loss'], fc['loss'] + 0.01],
                          'frequency': [186e12, 193.4e12, 198e12]}
        if fc['loss_table'] == 'desc':
            p['loss_coef'] = {k: x[::-1] for k, x in p['loss_coef'].items()}
    if fc.get('kind') == 'RamanFiber':
        return {'type': 'RamanFiber', 'type_variety': 'F', 'params': p,
                'operational': {'temperature': 283, 'raman_pumps': []}}
    return {'type': 'Fiber', 'type_variety': 'F', 'params': p}


def library(fc):
    eq = c.eqpt_json('test')
    ent = {'type_variety': 'F', 'dispersion': fc['dispersion'], 'pmd_coef': 1.265e-15}
    if fc['slope'] is not None:
        ent['dispersion_slope'] = fc['slope']
    if fc['nl'].startswith('area'):
        ent['effective_area'] = float(fc['nl'][4:]) * 1e-12
    else:
        ent['gamma'] = float(fc['nl'][5:]) * 1e-3
    eq['Fiber'] = [ent, {'type_variety': 'SSMF', 'dispersion': 1.67e-05, 'effective_area': 83e-12, 'pmd_coef': 1.265e-15}]
    eq['RamanFiber'] = [dict(ent)]
    return eq


def make_fibre(fc):
    equipment = c.make_equipment(library(fc))
    topo = c.build_topology(['A', 'B'], [('A', 'B', [fibre_json(fc)], None)])
    net = c.load_network(topo, equipment)
    fib = c.node(net, 'A>B:0:' + fc.get('kind', 'Fiber'))
    fib.ref_pch_in_dbm = 0.0
    return fib


def comb(types, pattern, gap=False, start=193.0e12, inner=None):
    """inner = 'low' / 'high': the comb spans its packed width + 300 GHz with the same first and last channel; the inner
    channels are packed next to the first ('low') or next to the last ('high') one"""
    f, baud, slot, pw = [], [], [], []
    edge = start
    for i, t in enumerate(types):
        b, s = H_TYPES[t]
        if gap and i == len(types) // 2:
            edge += 150e9
        if inner == 'high' and i == 1:
            edge += 300e9
        if inner == 'low' and i == len(types) - 1 and i > 0:
            edge += 300e9
        f.append(edge + s / 2)
        edge += s
        baud.append(b)
        slot.append(s)
    n = len(types)
    if pattern == 'flat':
        pw = [0.0] * n
    elif pattern == 'ramp':
        pw = [[-3.0, 0.0, 3.0, 10.0][i % 4] for i in range(n)]
    else:
        pw = [10.0 if i == 0 else -3.0 for i in range(n)]
    return dict(f=f, baud=baud, slot=slot, p=pw)


def make_si(cb, order=None, scale_db=0.0, ctor='arbitrary'):
    import numpy as np
    from gnpy.core.info import create_arbitrary_spectral_information, carriers_to_spectral_information, Carrier
    idx = list(range(len(cb['f']))) if order is None else list(order)
    if ctor == 'carriers':
        # the other way of supplying channels: a dict frequency -> Carrier, in the given order
        spectrum = {cb['f'][i]: Carrier(delta_pdb=0.0, baud_rate=cb['baud'][i], slot_width=cb['slot'][i], roll_off=0.1,
                                        tx_osnr=40.0, tx_power=1e-3 * 10 ** ((cb['p'][i] + scale_db) / 10), label='x')
                    for i in idx}
        return carriers_to_spectral_information(spectrum, power=1e-3)
    return create_arbitrary_spectral_information(
        frequency=np.array([cb['f'][i] for i in idx]),
        pch=1e-3 * 10 ** ((np.array([cb['p'][i] for i in idx]) + scale_db) / 10),
        baud_rate=np.array([cb['baud'][i] for i in idx]), slot_width=np.array([cb['slot'][i] for i in idx]),
        tx_osnr=40.0, tx_power=1e-3, roll_off=0.1, label='x')


def nli(fib, si):
    from gnpy.core.science_utils import NliSolver, RamanSolver
    srs = RamanSolver.calculate_stimulated_raman_scattering(si, fib)
    return NliSolver.compute_nli(si, srs, fib)


def reference_envelope(f, baud, p, alpha, beta2, gamma, length):
    """independent scalar evaluation of eq. 120/123 (arXiv:1209.0394) for every sampling convention:
    gamma in {cut, pump}, beta2 in {cut, pump, |mean|}, alpha in {cut, pump}.  Returns (lo, hi) per channel."""
    n = len(f)
    lo = [math.inf] * n
    hi = [0.0] * n
    for g_c, b_c, a_c in itertools.product(('cut', 'pump'), ('cut', 'pump', 'mean'), ('cut', 'pump')):
        for i in range(n):
            tot = 0.0
            for j in range(n):
                a = alpha[i] if a_c == 'cut' else alpha[j]
                b2 = abs(beta2[i]) if b_c == 'cut' else abs(beta2[j]) if b_c == 'pump' else abs((beta2[i] + beta2[j]) / 2)
                g = gamma[i] if g_c == 'cut' else gamma[j]
                leff = (1 - math.exp(-a * length)) / a
                la = 1 / a
                w = 16.0 / 27.0 if i == j else 32.0 / 27.0
                df = f[j] - f[i]
                psi = (math.asinh(math.pi ** 2 * la * b2 * baud[i] * (df + baud[j] / 2)) -
                       math.asinh(math.pi ** 2 * la * b2 * baud[i] * (df - baud[j] / 2))) / 2
                psi *= leff ** 2 / (2 * math.pi * b2 * la)
                tot += p[i] * p[j] ** 2 * g ** 2 * w * psi / baud[j] ** 2
            lo[i] = min(lo[i], tot)
            hi[i] = max(hi[i], tot)
    return lo, hi


def configured_gamma_ref(fc):
    lam = ref_wavelength(fc)
    if fc['nl'].startswith('area'):
        return 2 * math.pi * N2 / (lam * float(fc['nl'][4:]) * 1e-12)
    return float(fc['nl'][5:]) * 1e-3


def run_case(case):
    import numpy as np
    fc = case['fibre']
    # simulation parameters that the analytic method must not be influenced by
    nlip = {'method': 'gn_model_analytic'}
    if fc.get('sim') == 'computed_channels':
        nlip['computed_channels'] = [1, 2]
    elif fc.get('sim') == 'computed_number':
        nlip['computed_number_of_channels'] = 2
    c.set_sim_params({'nli_params': nlip, 'raman_params': {'flag': False}})
    viol = []

    def v(fp, what, **kw):
        viol.append(dict(fingerprint=fp, what=what, observed=kw))
    fib = make_fibre(fc)
    transitions = 0
    traces = 0
    widths = []
    # the model's gamma at the reference frequency must be the configured one (gamma or effective area, either way)
    f_ref = C0 / ref_wavelength(fc)
    g_ref = float(np.atleast_1d(fib.gamma(np.array([f_ref])))[0])
    if not math.isclose(g_ref, configured_gamma_ref(fc), rel_tol=1e-9):
        v('gamma-not-configured-value', f'fibre configured with {fc["nl"]}: gamma(ref frequency) = {g_ref!r}, '
          f'expected {configured_gamma_ref(fc)!r}')
    # beta2 follows the documented conversion of the configured dispersion (and slope) at every frequency
    for f in (191.4e12, 193.414489e12, 196.0e12):
        lam, lam0 = C0 / f, ref_wavelength(fc)
        if fc['slope'] is None:
            exp_b2 = -C0 * fc['dispersion'] / (2 * math.pi * (C0 / lam0) ** 2)
        else:
            exp_b2 = -(lam ** 2) * (fc['dispersion'] + fc['slope'] * (lam - lam0)) / (2 * math.pi * C0)
        got_b2 = float(np.atleast_1d(fib.beta2(np.array([f])))[0])
        if not math.isclose(got_b2, exp_b2, rel_tol=1e-9):
            v('beta2-not-documented-conversion', f'fibre dispersion {fc["dispersion"]} slope {fc["slope"]}: beta2({f / 1e12} THz) = '
              f'{got_b2!r}, expected {exp_b2!r}')
            break
    # alpha(f) is the configured loss coefficient (scalar, or the table interpolated linearly in frequency)
    for f in (191.4e12, 193.414489e12, 196.0e12):
        db_km = fc['loss'] if not fc['loss_table'] else float(np.interp(
            f, [186e12, 193.4e12, 198e12], [fc['loss'] + 0.02, fc['loss'], fc['loss'] + 0.01]))
        exp_a = db_km * 1e-3 / (10 * math.log10(math.e))
        got_a = float(np.atleast_1d(fib.alpha(np.array([f])))[0])
        if not math.isclose(got_a, exp_a, rel_tol=1e-9):
            v('alpha-not-configured-value', f'fibre loss {fc["loss"]} table {fc["loss_table"]}: alpha({f / 1e12} THz) = {got_a!r} 1/m, '
              f'expected {exp_a!r} ({db_km} dB/km)')
            break
    nontriv = 0
    for cb_spec in case['combs']:
        if fc.get('sim') in ('computed_channels', 'computed_number') and len(cb_spec['types']) < 2:
            continue
        cb = comb(cb_spec['types'], cb_spec['pattern'], cb_spec.get('gap', False), inner=cb_spec.get('inner'))
        n = len(cb['f'])
        si = make_si(cb)
        out = np.array(nli(fib, si), dtype=float)
        transitions += 1
        where = f'fibre {fc} comb types={cb_spec["types"]} powers={cb_spec["pattern"]}' + \
            (f' inner channels packed {cb_spec["inner"]}' if cb_spec.get('inner') else '')
        if (out < 0).any() or np.isnan(out).any():
            v('nli-negative', f'{where}: NLI = {out.tolist()}')
            continue
        fr = si.frequency
        alpha = np.atleast_1d(fib.alpha(fr)) * np.ones(n)
        beta2 = np.atleast_1d(fib.beta2(fr)) * np.ones(n)
        gamma = np.atleast_1d(fib.gamma(fr)) * np.ones(n)
        lo, hi = reference_envelope([float(x) for x in fr], [float(x) for x in si.baud_rate], [float(x) for x in si.pch],
                                    alpha.tolist(), beta2.tolist(), gamma.tolist(), fib.params.length)
        ok = True
        for i in range(n):
            widths.append((hi[i] - lo[i]) / hi[i] if hi[i] > 0 else 0.0)
            if not (lo[i] * (1 - 1e-9) <= out[i] <= hi[i] * (1 + 1e-9)):
                v('nli-outside-closed-form-envelope',
                  f'{where}: channel {i} NLI {out[i]:.6e} W outside closed-form envelope [{lo[i]:.6e}, {hi[i]:.6e}]',
                  got=float(out[i]), lo=lo[i], hi=hi[i])
                ok = False
                break
        nontriv += int(len(set(cb_spec['types'])) > 1 or cb_spec['pattern'] != 'flat')
        # cube law
        for k_db in (3.0102999566398120, -3.0102999566398120):
            o2 = np.array(nli(fib, make_si(cb, scale_db=k_db)))
            transitions += 1
            k = 10 ** (k_db / 10)
            if not np.allclose(o2, out * k ** 3, rtol=1e-9, atol=0):
                v('cube-law', f'{where}: NLI(k*P) != k^3 NLI(P) for k={k:.3f}: {o2[:2].tolist()} vs {(out * k ** 3)[:2].tolist()}')
                ok = False
                break
        # order independence: all permutations of the supplied channel list (n <= 4), a few rotations beyond
        perms = list(itertools.permutations(range(n))) if n <= 4 else [tuple(range(n))[::-1], tuple(range(1, n)) + (0,)]
        for pm in perms[1:] if n <= 4 else perms:
            for ctor in ('arbitrary', 'carriers'):
                sp = make_si(cb, order=pm, ctor=ctor)
                op = np.array(nli(fib, sp))
                transitions += 1
                if not (np.array_equal(sp.frequency, si.frequency) and np.allclose(op, out, rtol=1e-12, atol=0)):
                    v('order-dependence', f'{where}: channels supplied in order {pm} ({ctor} constructor) give NLI {op.tolist()} '
                      f'vs {out.tolist()}')
                    ok = False
                    break
            if not ok:
                break
        # monotone: raising one channel by 1 dB / adding a channel never lowers any channel's NLI
        for i in range(min(n, 4)):
            cb2 = dict(cb, p=[x + (1.0 if j == i else 0.0) for j, x in enumerate(cb['p'])])
            o3 = np.array(nli(fib, make_si(cb2)))
            transitions += 1
            if (o3 < out * (1 - 1e-12)).any():
                v('monotone-power', f'{where}: raising channel {i} by 1 dB lowered NLI: {o3.tolist()} vs {out.tolist()}')
                ok = False
                break
        for t in range(3):
            b, s = H_TYPES[t]
            top = cb['f'][-1] + cb['slot'][-1] / 2
            cb3 = dict(f=cb['f'] + [top + s / 2], baud=cb['baud'] + [b], slot=cb['slot'] + [s], p=cb['p'] + [0.0])
            o4 = np.array(nli(fib, make_si(cb3)))[:n]
            transitions += 1
            if (o4 < out * (1 - 1e-12)).any():
                v('monotone-added-channel', f'{where}: adding a {b / 1e9:g}G channel lowered NLI: {o4.tolist()} vs {out.tolist()}')
                ok = False
                break
        # Fiber.__call__: NLI share afterwards = NLI computed on the spectrum after the input connector / pad
        si2 = make_si(cb)
        loss_in = fc['con_in'] + fc.get('att_in', 0.0)
        pre = si2.pch * 10 ** (-loss_in / 10)
        res = fib(make_si(cb))
        transitions += 1
        exp_share_lo = np.array(lo) * 10 ** (-3 * loss_in / 10) / pre
        exp_share_hi = np.array(hi) * 10 ** (-3 * loss_in / 10) / pre
        got = res._nli_ratio
        if ((got < exp_share_lo * (1 - 1e-9)) | (got > exp_share_hi * (1 + 1e-9))).any():
            v('fiber-call-nli-share', f'{where}: NLI share after Fiber.__call__ {got.tolist()} outside '
              f'[{exp_share_lo.tolist()}, {exp_share_hi.tolist()}]')
            ok = False
        traces += ok
    # gamma^2 scaling between the two gamma-only / the two area-only configurations
    if case.get('gamma_pair'):
        fc2 = dict(fc, nl=case['gamma_pair'])
        fib2 = make_fibre(fc2)
        cb = comb([0, 1, 0], 'ramp')
        a, b = np.array(nli(fib, make_si(cb))), np.array(nli(fib2, make_si(cb)))
        si0 = make_si(cb)
        rr = (np.atleast_1d(fib2.gamma(si0.frequency)) / np.atleast_1d(fib.gamma(si0.frequency))) ** 2
        transitions += 2
        # NLI_i is a sum of terms each proportional to gamma^2 sampled at the cut or the pump channel: the ratio of the
        # two fibres' NLI must lie between the smallest and the largest per-channel gamma^2 ratio
        if ((b / a) < rr.min() * (1 - 1e-9)).any() or ((b / a) > rr.max() * (1 + 1e-9)).any():
            v('gamma-squared-scaling', f'fibre {fc["nl"]} -> {fc2["nl"]}: NLI ratio {(b / a).tolist()} outside '
              f'[{rr.min():.6f}, {rr.max():.6f}]')
    for x in viol:
        x['case'] = case
    return {'violations': viol[:10], 'transitions': transitions, 'traces': traces, 'nontrivial': nontriv > 0,
            'evaluations': len(case['combs']), 'nontrivial_keys': [],
            'tags': {'combs': len(case['combs']), 'nontrivial-combs': nontriv,
                     'envelope-wide(>2%)': int(max(widths or [0]) > 0.02), 'envelope-nonzero': int(max(widths or [0]) > 0)},
            'outcomes': [f'{fc["nl"]}/{fc["slope"]}/{fc["loss_table"]}'],
            'sample': {'fibre': fc, 'combs': len(case['combs']), 'first': case['combs'][0],
                       'max_envelope_width': max(widths or [0])}}


def all_combs(tier, seed):
    combs = []
    for n in (1, 2, 3, 4):
        for types in itertools.product(range(3), repeat=n):
            for pat in POWER_PATTERNS:
                if n == 1 and pat != 'flat':
                    continue
                combs.append({'types': list(types), 'pattern': pat})
    # beyond n = 4: deviation-bounded typing around a uniform comb
    for n in (6, 8):
        sp = engine.Space({f't{i}': [0, 1, 2] for i in range(n)})
        for x in sp.enumerate(1 if tier == 'quick' else 2):
            combs.append({'types': [x[f't{i}'] for i in range(n)], 'pattern': POWER_PATTERNS[(seed + sum(x[f't{i}'] for i in range(n))) % 3],
                          'gap': n == 8})
    # same channel count, same first / last channel and same symbol rates, different inner placement, evaluated one after the
    # other on the same fibre object (every comb of a case shares the fibre)
    for types in ([0, 0, 0], [1, 1, 1, 1], [0, 1, 0], [2, 0, 0, 2]):
        for inner in ('low', 'high', 'low'):
            combs.append({'types': types, 'pattern': 'ramp', 'inner': inner})
    combs.append({'types': [0] * 76, 'pattern': 'flat'})
    combs.append({'types': [0, 1] * 30, 'pattern': 'ramp'})
    if tier == 'thorough':
        combs.append({'types': [0] * 96, 'pattern': 'ramp'})
    return combs


def main(rep, tier, seed):
    sp = engine.Space(FIBRE_SPACE)
    d = 2 if tier == 'quick' else 3
    fibres = [{k: v for k, v in x.items() if k != '_dev'} for x in sp.enumerate(d)]
    # computed_channels [1, 2] needs combs of >= 2 channels: single-channel combs are skipped for that setting in run_case
    combs = all_combs(tier, seed)
    chunk = 40
    cases = []
    for fc in fibres:
        for i in range(0, len(combs), chunk):
            case = {'fibre': fc, 'combs': combs[i:i + chunk]}
            if i == 0 and fc['nl'] in ('gamma1.3', 'area83'):
                case['gamma_pair'] = 'gamma2.0' if fc['nl'] == 'gamma1.3' else 'area50'
            cases.append(case)
    results, stats = engine.run_pool('checks.c03', cases, horizon=600, chunksize=1)
    rep.absorb(results)
    rep.cov['bound'] = (f'fibre configurations within {d} deviation(s) of the base over {list(FIBRE_SPACE)} ({len(fibres)} fibres) x '
                        f'{len(combs)} combs (every typing of 1-4 channels from 3 channel types x 3 power patterns, '
                        'deviation-bounded typings of 6/8-channel combs, 76/60(/96)-channel combs); all permutations for n<=4')
    rep.cov['space_size'] = len(fibres) * len(combs)
    rep.cov['evaluations'] = sum(r.get('evaluations', 0) for r in results)
    rep.cov['exhaustive'] = not stats['budget_hit'] and len(results) == len(cases)
    rep.cov['rule'] = ('a case = one fibre x a block of combs; per (fibre, comb): NLI within the closed-form envelope over '
                       'sampling conventions (1e-9), NLI >= 0, cube law for k=2 and 1/2, all input permutations, +1 dB on '
                       'each channel, one added channel of each type, Fiber.__call__ share. transitions = compute_nli / '
                       'Fiber.__call__ invocations compared. Non-trivial comb: >= 2 channel types or non-flat powers.')
    rep.assumptions += ['alpha(f), beta2(f) are read from the fibre accessors (C05 checks alpha against the loss budget); '
                        'gamma(f_ref) is checked against the configured value',
                        'sampling convention of alpha/beta2/gamma between cut and pump channel is not fixed by the paper: '
                        'any choice inside the envelope is accepted']
    rep.require(rep.tags.get('nontrivial-combs', 0) >= 100, 'too few non-uniform combs')
    rep.require(rep.tags.get('envelope-nonzero', 0) >= 1, 'envelope width is zero everywhere')
