"""C07 - the launched channel set survives the path intact; channel order is irrelevant.

Part 1 (construction): every permutation (n <= 5) of carrier lists from a validity alphabet (valid, touching slots,
        overlap by one 12.5 GHz step, baud rate wider than slot) through create_arbitrary_spectral_information and
        carriers_to_spectral_information: invalid => SpectrumError for every order, valid => identical object for every order.
Part 2 (paths): networks with single-band, two-band, three-band and mixed OMS x every simple path x spectra whose channels
        sit on / inside / across / outside every edge of the path's common band (independent band model) x every
        permutation of the supplied carrier order; recorder on the real request.propagate.
"""
import itertools

from mc import engine
from checks import common as c
from checks import c15

TYPES = [(32e9, 50e9), (64e9, 75e9), (16e9, 25e9), (60e9, 62.5e9)]


# ---- part 1 -------------------------------------------------------------------------------------------------------------
def carrier_lists(deep=False, deeper=False):
    """(name, list of (f, baud, slot, extra), valid?)"""
    out = []
    base = 193.0e12
    if deeper:
        # thorough tier: all typings (3 types) of 5 touching channels and a one-step overlap at every neighbour position
        for types in itertools.product(range(3), repeat=5):
            for k in (None, 0, 1, 2, 3):
                if k is not None and sum(types) % 3 != k % 3:      # a third of the typings per overlap position
                    continue
                edge, chans = base, []
                for i, t in enumerate(types):
                    b, s = TYPES[t]
                    if k is not None and i == k + 1:
                        edge -= 12.5e9
                    chans.append((edge + s / 2, b, s))
                    edge += s
                out.append((('touching5_' if k is None else f'overlap5_{k}') + ''.join(map(str, types)), chans, k is None))
    if deep:
        # all typings of 4 touching channels and every one-step overlap between neighbours of 4 channels
        for types in itertools.product(range(4), repeat=4):
            edge, chans = base, []
            for t in types:
                b, s = TYPES[t]
                chans.append((edge + s / 2, b, s))
                edge += s
            out.append(('touching4_' + ''.join(map(str, types)), chans, True))
        for types in itertools.product(range(3), repeat=4):
            for k in (0, 1, 2):
                edge, chans = base, []
                for i, t in enumerate(types):
                    b, s = TYPES[t]
                    if i == k + 1:
                        edge -= 12.5e9
                    chans.append((edge + s / 2, b, s))
                    edge += s
                out.append((f'overlap4_{k}' + ''.join(map(str, types)), chans, False))
    # all typings of 3 adjacent channels placed edge to edge (valid, touching)
    for types in itertools.product(range(4), repeat=3):
        f, edge = [], base
        chans = []
        for t in types:
            b, s = TYPES[t]
            chans.append((edge + s / 2, b, s))
            edge += s
        out.append(('touching' + ''.join(map(str, types)), chans, True))
    # overlap by one 12.5 GHz step between channel k and k+1; and by much less than a grid step (1 GHz, 1 MHz): any overlap
    # is an overlap. A gap of the same size is valid.
    for types in itertools.product(range(3), repeat=3):
        for k in (0, 1):
            for step, valid in ((12.5e9, False), (1e9, False), (1e6, False), (-1e6, True)):
                if step != 12.5e9 and types not in ((0, 0, 0), (0, 1, 2), (2, 1, 0)):
                    continue
                f, edge = [], base
                chans = []
                for i, t in enumerate(types):
                    b, s = TYPES[t]
                    if i == k + 1:
                        edge -= step
                    chans.append((edge + s / 2, b, s))
                    edge += s
                name = f'overlap{k}' if step == 12.5e9 else f'{"overlap" if not valid else "gap"}{k}_{abs(step):g}Hz_'
                out.append((name + ''.join(map(str, types)), chans, valid))
    # baud rate wider than the slot on one channel (others fine and of a different type)
    for k in range(3):
        for wide in ((64e9, 50e9), (32.5e9, 25e9), (75.1e9, 75e9)):
            chans = []
            edge = base
            for i in range(3):
                b, s = wide if i == k else TYPES[(i + k) % 3]
                chans.append((edge + s / 2, b, s))
                edge += s + 25e9
            out.append((f'baud>slot{k}_{wide[0] / 1e9:g}', chans, False))
    # 5 channels mixed, valid, with gaps; and one 5-channel list with an overlap between the last two
    chans = [(192.0e12, 32e9, 50e9), (192.0625e12, 64e9, 75e9), (192.2e12, 16e9, 25e9), (194.0e12, 60e9, 62.5e9),
             (195.5e12, 32e9, 37.5e9)]
    out.append(('mixed5', chans, True))
    out.append(('mixed5_overlap', chans[:4] + [(194.05e12, 32e9, 50e9)], False))
    out.append(('single', [(193.5e12, 32e9, 50e9)], True))
    out.append(('equal_freq', [(193.5e12, 32e9, 50e9), (193.5e12, 32e9, 50e9)], False))
    return out


def build_si(chans, order, via):
    import numpy as np
    from gnpy.core.info import create_arbitrary_spectral_information, carriers_to_spectral_information, Carrier
    ch = [chans[i] for i in order]
    if via == 'arbitrary':
        return create_arbitrary_spectral_information(
            frequency=np.array([x[0] for x in ch]), pch=np.array([1e-3 * (1 + 0.1 * i) for i in order]),
            baud_rate=np.array([x[1] for x in ch]), slot_width=np.array([x[2] for x in ch]),
            tx_osnr=np.array([40.0 - i for i in order]), tx_power=np.array([1e-3 * (1 + 0.1 * i) for i in order]),
            roll_off=np.array([0.1 + 0.01 * i for i in order]), delta_pdb_per_channel=np.array([0.5 * i for i in order]),
            label=np.array([f'l{i}' for i in order]))
    spec = {x[0]: Carrier(delta_pdb=0.5 * i, baud_rate=x[1], slot_width=x[2], roll_off=0.1 + 0.01 * i, tx_osnr=40.0 - i,
                          tx_power=1e-3 * (1 + 0.1 * i), label=f'l{i}') for x, i in zip(ch, order)}
    return carriers_to_spectral_information(spec, power=1e-3)


def si_identity(si):
    return [(float(f), float(b), float(s), str(l), float(o), float(p), float(r), float(d), float(pw))
            for f, b, s, l, o, p, r, d, pw in zip(si.frequency, si.baud_rate, si.slot_width, si.label, si.tx_osnr,
                                                  si.tx_power, si.roll_off, si.delta_pdb_per_channel, si.pch)]


def run_construct(case):
    from gnpy.core.exceptions import SpectrumError
    name, chans, valid = case['name'], [tuple(x) for x in case['chans']], case['valid']
    viol = []
    n = len(chans)
    ref = None
    transitions = 0
    outcomes = set()
    for via in ('arbitrary', 'carriers'):
        if via == 'carriers' and len({x[0] for x in chans}) < n:
            continue          # a dict keyed by frequency cannot hold two carriers at the same frequency
        for order in itertools.permutations(range(n)):
            transitions += 1
            try:
                si = build_si(chans, order, via)
                res = si_identity(si)
                outcomes.add('accepted')
            except SpectrumError:
                res = 'SpectrumError'
                outcomes.add('rejected')
            except Exception as exc:  # noqa
                viol.append(dict(fingerprint=f'construction-raised:{type(exc).__name__}',
                                 what=f'{name} order {order} via {via}: {type(exc).__name__}: {exc}'))
                break
            if valid and res == 'SpectrumError':
                viol.append(dict(fingerprint='valid-spectrum-rejected', what=f'{name}: carriers {chans} supplied in order '
                                 f'{order} via {via} rejected with SpectrumError'))
                break
            if not valid and res != 'SpectrumError':
                viol.append(dict(fingerprint='invalid-spectrum-accepted', what=f'{name}: carriers {chans} supplied in order '
                                 f'{order} via {via} accepted although they overlap / baud rate exceeds the slot'))
                break
            if valid:
                if ref is None:
                    ref = res
                    fr = [x[0] for x in res]
                    if fr != sorted(fr) or len(set(fr)) != len(fr):
                        viol.append(dict(fingerprint='not-sorted', what=f'{name}: frequencies {fr}'))
                    exp = sorted((c0[0], c0[1], c0[2], f'l{i}', 40.0 - i, 1e-3 * (1 + 0.1 * i), 0.1 + 0.01 * i, 0.5 * i,
                                  1e-3 * (1 + 0.1 * i)) for i, c0 in enumerate(chans))
                    if [tuple(x) for x in res] != exp:
                        viol.append(dict(fingerprint='channel-data-mixed-up', what=f'{name}: built {res}, expected {exp}'))
                elif res != ref:
                    viol.append(dict(fingerprint='order-dependent-construction', what=f'{name}: order {order} via {via} gives '
                                     f'{res} instead of {ref}'))
                    break
    for v in viol:
        v['case'] = case
    return {'violations': viol[:4], 'transitions': transitions, 'traces': 0 if viol else 1, 'nontrivial': n > 1,
            'tags': {('construct-valid' if valid else 'construct-invalid'): 1}, 'outcomes': sorted(outcomes), 'sample': case}


# ---- part 2 -------------------------------------------------------------------------------------------------------------
NETS = ['C_auto', 'CL', 'CLS', 'mixed_C_then_CL', 'narrowC', 'CLS_then_CL', 'C_wideSI', 'wide_then_CL', 'wide_then_CLS']


def library():
    eq = c15.library()
    eq['Edfa'].append({'type_variety': 'std_low_gain_S', 'f_min': 196.5e12, 'f_max': 200.0e12, 'type_def': 'variable_gain',
                       'gain_flatmax': 16, 'gain_min': 8, 'p_max': 21, 'nf_min': 7, 'nf_max': 11, 'out_voa_auto': False,
                       'allowed_for_design': False})
    # one single-band amplifier whose band spans the L and the C band of the multi-band amplifiers (and beyond)
    eq['Edfa'].append({'type_variety': 'wide_LC', 'f_min': 186.0e12, 'f_max': 196.3e12, 'type_def': 'variable_gain',
                       'gain_flatmax': 16, 'gain_min': 8, 'p_max': 21, 'nf_min': 7, 'nf_max': 11, 'out_voa_auto': False,
                       'allowed_for_design': False})
    eq['Edfa'].append({'type_variety': 'wide_LCS', 'f_min': 186.0e12, 'f_max': 200.5e12, 'type_def': 'variable_gain',
                       'gain_flatmax': 16, 'gain_min': 8, 'p_max': 21, 'nf_min': 7, 'nf_max': 11, 'out_voa_auto': False,
                       'allowed_for_design': False})
    eq['Edfa'].append({'type_variety': 'mb3', 'type_def': 'multi_band',
                       'amplifiers': ['std_low_gain', 'std_low_gain_L', 'std_low_gain_S'], 'allowed_for_design': False})
    return eq


def mb2():
    return c15.mb('std_low_gain_multiband', ['std_low_gain', 'std_low_gain_L'])


def mb3():
    return c15.mb('mb3', ['std_low_gain', 'std_low_gain_L', 'std_low_gain_S'])


def span(a, length=60):
    return [a(), c.fiber(length), a()]


CB = {'f_min': 191.3e12, 'f_max': 196.1e12, 'spacing': 50e9}
LB = {'f_min': 186.6e12, 'f_max': 190.0e12, 'spacing': 50e9}
SB = {'f_min': 196.6e12, 'f_max': 199.9e12, 'spacing': 50e9}


def network(name):
    e1 = lambda: c.edfa('std_low_gain')                   # noqa
    en = lambda: c.edfa('std_low_gain_reduced_band')      # noqa
    if name in ('C_auto', 'C_wideSI'):
        rp = {s: {'params': {'design_bands': [CB]}} for s in 'AB'}
        return c.build_topology(['A', 'B'], [('A', 'B', [c.fiber(70)], [c.fiber(70)])], roadm_params=rp)
    if name == 'CL':
        rp = {s: {'params': {'design_bands': [CB, LB]}} for s in 'AB'}
        return c.build_topology(['A', 'B'], [('A', 'B', span(mb2), span(mb2))], roadm_params=rp)
    if name == 'CLS':
        rp = {s: {'params': {'design_bands': [CB, LB, SB]}} for s in 'AB'}
        return c.build_topology(['A', 'B'], [('A', 'B', span(mb3), span(mb3))], roadm_params=rp)
    if name == 'mixed_C_then_CL':
        rp = {s: {'params': {'design_bands': [CB, LB]}} for s in 'ABC'}
        rp['A'] = {'params': {'design_bands': [CB]}}
        rp['B'] = {'params': {'design_bands': [CB, LB], 'per_degree_design_bands': {'B>A:0:Edfa': [CB]}}}
        return c.build_topology(['A', 'B', 'C'], [('A', 'B', span(e1), span(e1)), ('B', 'C', span(mb2), span(mb2))],
                                roadm_params=rp)
    if name == 'narrowC':
        rp = {s: {'params': {'design_bands': [CB]}} for s in 'ABC'}
        return c.build_topology(['A', 'B', 'C'], [('A', 'B', span(e1), span(e1)), ('B', 'C', [e1(), c.fiber(60), en()], span(e1))],
                                roadm_params=rp)
    if name == 'CLS_then_CL':
        rp = {'A': {'params': {'design_bands': [CB, LB, SB]}}, 'C': {'params': {'design_bands': [CB, LB]}},
              'B': {'params': {'design_bands': [CB, LB], 'per_degree_design_bands': {'B>A:0:Multiband_amplifier': [CB, LB, SB]}}}}
        return c.build_topology(['A', 'B', 'C'], [('A', 'B', span(mb3), span(mb3)), ('B', 'C', span(mb2), span(mb2))],
                                roadm_params=rp)
    if name in ('wide_then_CL', 'wide_then_CLS'):
        # a wide single-band amplifier section, then a multi-band section: the common band has several pieces inside ONE band
        wide = 'wide_LC' if name == 'wide_then_CL' else 'wide_LCS'
        ew = lambda: c.edfa(wide)      # noqa
        WB = {'f_min': 186.0e12, 'f_max': 196.3e12 if name == 'wide_then_CL' else 200.5e12, 'spacing': 50e9}
        bands = [CB, LB] if name == 'wide_then_CL' else [CB, LB, SB]
        m = mb2 if name == 'wide_then_CL' else mb3
        rp = {'A': {'params': {'design_bands': [WB]}}, 'C': {'params': {'design_bands': bands}},
              'B': {'params': {'design_bands': bands, 'per_degree_design_bands': {'B>A:0:Edfa': [WB]}}}}
        return c.build_topology(['A', 'B', 'C'], [('A', 'B', span(ew), span(ew)), ('B', 'C', span(m), span(m))],
                                roadm_params=rp)
    raise ValueError(name)


def library_band(eq, variety):
    """band of an amplifier model as the equipment document declares it (documented default when it gives none)"""
    ent = next((e for e in eq['Edfa'] if e.get('type_variety') == variety), None)
    if ent is None:
        return None
    return (ent.get('f_min', 191.275e12), ent.get('f_max', 196.125e12))


def bands_vs_library(path, eq):
    """amplifiers of the path whose band differs from the one their model declares in the equipment document"""
    from gnpy.core.elements import Edfa, Multiband_amplifier
    bad = []
    for n in path:
        amps = list(n.amplifiers.values()) if isinstance(n, Multiband_amplifier) else [n] if isinstance(n, Edfa) else []
        for a in amps:
            exp = library_band(eq, a.params.type_variety)
            if exp is not None and (a.params.f_min, a.params.f_max) != exp:
                bad.append(f'{n.uid} ({a.params.type_variety}): element band {a.params.f_min / 1e12}-{a.params.f_max / 1e12} THz, '
                           f'library {exp[0] / 1e12}-{exp[1] / 1e12} THz')
    return bad


def path_common_bands(path):
    from gnpy.core.elements import Edfa, Multiband_amplifier
    sets = []
    for n in path:
        if isinstance(n, Multiband_amplifier):
            sets.append([(a.params.f_min, a.params.f_max) for a in n.amplifiers.values()])
        elif isinstance(n, Edfa):
            sets.append([(n.params.f_min, n.params.f_max)])
    cur = sets[0]
    for s in sets[1:]:
        cur = [(max(a0, b0), min(a1, b1)) for a0, a1 in cur for b0, b1 in s if max(a0, b0) < min(a1, b1)]
    union = sorted({b for s in sets for b in s})
    return sorted(cur), union


EDGE_MODES = [0.0, 12.5e9, 1e9, 1e6, -1e6]


def edge_spectrum(common, union, variant):
    """channels on, inside, across and outside every edge of the common bands; different type per position"""
    chans = []

    def add(f, t, label):
        b, s = TYPES[t]
        if all(abs(f - x['f']) >= (s + x['slot']) / 2 for x in chans):
            chans.append(dict(f=f, baud=b, slot=s, label=label, dp=0.5 * (len(chans) % 3), tx_osnr=38.0 + len(chans) % 4,
                              power_dbm=-1.0 * (len(chans) % 3)))
    t0 = variant % 3
    # how the outermost channels sit on the band edges: slot exactly on the edge; across it by one 12.5 GHz step, by 1 GHz or
    # by 1 MHz (outside, however little: removed); 1 MHz inside (kept)
    mode = (variant // 3) % len(EDGE_MODES)
    over = EDGE_MODES[mode]
    for lo, hi in common:
        b0, s0 = TYPES[t0]
        add(lo + s0 / 2 - over, t0, 'on_lo' if over == 0 else ('across_lo' if over > 0 else 'just_inside_lo'))
        add(lo + s0 / 2 + 2 * s0, (t0 + 1) % 3, 'inside_lo')
        add(hi - s0 / 2 + over, t0, 'on_hi' if over == 0 else ('across_hi' if over > 0 else 'just_inside_hi'))
        add(hi - s0 / 2 - 3 * s0, (t0 + 2) % 3, 'inside_hi')
        add((lo + hi) / 2, (t0 + 1) % 3, 'middle')
    for lo, hi in union:
        add(lo - 200e9, 0, 'outside_below')
        add(hi + 200e9, 0, 'outside_above')
    return sorted(chans, key=lambda x: x['f'])


def expected_kept(spec, common):
    return [x for x in spec if any(lo <= x['f'] - x['slot'] / 2 and x['f'] + x['slot'] / 2 <= hi for lo, hi in common)]


def ident(s):
    return sorted(zip(s['f'].tolist(), s['baud'].tolist(), s['slot'].tolist(), s['label'], s['tx_osnr'].tolist(),
                      s['tx_power'].tolist(), s['roll_off'].tolist()))


def run_path(case):
    import numpy as np
    viol = []
    eq = library()
    if case['net'] == 'C_wideSI':
        eq['SI'][0]['f_min'], eq['SI'][0]['f_max'] = 190.9e12, 196.6e12
    net, equipment, _, _ = c.design(network(case['net']), eq)
    transitions = 0
    traces = 0
    tags = {}
    for path in c.all_simple_trx_paths(net):
        common, union = path_common_bands(path)
        where = f'net {case["net"]} path {path[0].uid}->{path[-1].uid}'
        bad = bands_vs_library(path, eq)
        if bad:
            viol.append(dict(fingerprint='amplifier-band-differs-from-library', what=f'{where}: {bad[0]}'))
            break
        if case['spectrum'] == 'uniform':
            si0 = equipment['SI']['default']
            n = int((si0.f_max - si0.f_min) // si0.spacing)
            spec = [dict(f=si0.f_min + si0.spacing * i, baud=si0.baud_rate, slot=si0.spacing,
                         label=f'{si0.baud_rate * 1e-9:.2f}G', tx_osnr=si0.tx_osnr, power_dbm=si0.power_dbm) for i in range(1, n + 1)]
            orders = [None]
        else:
            spec = edge_spectrum(common, union, case['variant'])
            idx = list(range(len(spec)))
            # every permutation of up to 5 supplied carriers (the in-band ones), plus reversed / rotated full lists
            orders = [idx, idx[::-1], idx[1:] + idx[:1], idx[::2] + idx[1::2]]
            if case.get('orders') == 'many':
                # every rotation and every adjacent transposition of the supplied list
                orders += [idx[k:] + idx[:k] for k in range(2, len(idx))]
                orders += [idx[:k] + [idx[k + 1], idx[k]] + idx[k + 2:] for k in range(len(idx) - 1)]
        # the same path (same element objects) then carries a second spectrum with the same channel count and the same
        # first / last channel but another split between the bands
        specs = [spec]
        if case['spectrum'] != 'uniform' and len(common) >= 2:
            moved = next((x for x in spec if x['label'] == 'middle' and common[-1][0] <= x['f'] <= common[-1][1]), None)
            if moved is not None and spec.index(moved) not in (0, len(spec) - 1):
                lo0 = common[0][0]
                alt = dict(moved, f=lo0 + 1.0e12, label='moved_to_first_band')
                if all(abs(alt['f'] - x['f']) >= (alt['slot'] + x['slot']) / 2 for x in spec if x is not moved):
                    specs.append(sorted([x for x in spec if x is not moved] + [alt], key=lambda x: x['f']))
                    tags['second-spectrum-other-split'] = 1
        live = None
        for spec in specs:
          if viol:
              break
          base = None
          kept = expected_kept(spec, common)
          base = None
          for order in orders:
              sp = spec if order is None else [spec[i] for i in order]
              req = c.make_request(equipment, path[0].uid, path[-1].uid, spectrum=None if order is None else sp)
              try:
                  if spec is not specs[0] and live is not None:
                      # second spectrum: on the element objects that carried the first one
                      pth, si, rec = c.propagate_recorded(live, req, equipment, copy_path=False)
                  else:
                      pth, si, rec = c.propagate_recorded(path, req, equipment)
                      live = pth
              except ValueError as exc:
                  if not kept and 'does not match' in str(exc):
                      tags['no-channel-in-band'] = 1
                      continue
                  viol.append(dict(fingerprint=f'propagation-raised:{type(exc).__name__}', what=f'{where}: {exc}'))
                  break
              except Exception as exc:  # noqa
                  viol.append(dict(fingerprint=f'propagation-raised:{type(exc).__name__}', what=f'{where} order {order}: '
                                   f'{type(exc).__name__}: {str(exc)[:200]}'))
                  break
              transitions += len(rec.steps)
              first = rec.steps[0]['pre']
              exp_f = [x['f'] for x in kept]
              if len(first['f']) != len(exp_f) or not np.allclose(sorted(first['f'].tolist()), exp_f, rtol=0, atol=1.0):
                  got = first['f'].tolist()
                  missing = [x['label'] for x in kept if not any(abs(x['f'] - g) < 1 for g in got)]
                  extra = [g for g in got if not any(abs(x['f'] - g) < 1 for x in kept)]
                  viol.append(dict(fingerprint='filter-set-differs', what=f'{where}: after the band filter {len(got)} channels, '
                                   f'expected {len(exp_f)}; missing {missing}; unexpected {extra}; common bands {common}'))
                  break
              if order is not None:
                  exp_id = sorted((x['f'], x['baud'], x['slot'], x['label'], x['tx_osnr'], 1e-3 * 10 ** (x['power_dbm'] / 10), 0.15)
                                  for x in kept)
                  if not all(np.allclose(a[:3] + a[4:], b[:3] + b[4:], rtol=1e-12) and a[3] == b[3] for a, b in zip(ident(first), exp_id)):
                      viol.append(dict(fingerprint='channel-data-mixed-up', what=f'{where} order {order}: launched '
                                       f'{ident(first)[:3]} expected {exp_id[:3]}'))
                      break
              ref_id = ident(first)
              ok = True
              for st in rec.steps:
                  for k in ('pre', 'post'):
                      s = st[k]
                      if ident(s) != ref_id:
                          lost = len(ref_id) - len(s['f'])
                          viol.append(dict(fingerprint='channel-set-changed-on-path', what=f'{where}: at {st["cls"]} {st["uid"]} '
                                           f'({k}) the channel set / per-channel data differs from the launched one '
                                           f'({len(s["f"])} vs {len(ref_id)} channels)'))
                          ok = False
                          break
                      fr = s['f']
                      if (np.diff(fr) <= 0).any():
                          viol.append(dict(fingerprint='not-in-frequency-order', what=f'{where}: at {st["uid"]} frequencies not '
                                           'strictly increasing'))
                          ok = False
                          break
                  if not ok:
                      break
              if not ok:
                  break
              rx = pth[-1]
              if len(rx.snr) != len(ref_id):
                  viol.append(dict(fingerprint='receiver-channel-count', what=f'{where}: receiver reports {len(rx.snr)} channels'))
                  break
              result = {'f': rec.steps[-1]['post']['f'], 'pch': rec.steps[-1]['post']['pch'], 'sr': rec.steps[-1]['post']['sr'],
                        'ar': rec.steps[-1]['post']['ar'], 'nr': rec.steps[-1]['post']['nr'], 'snr': np.array(rx.snr_01nm)}
              if base is None:
                  base = result
              else:
                  for k in base:
                      if not np.allclose(result[k], base[k], rtol=1e-12, atol=0):
                          viol.append(dict(fingerprint='order-dependent-result', what=f'{where}: carriers supplied in order {order} '
                                           f'give different {k}: {result[k][:3]} vs {base[k][:3]}'))
                          break
              traces += 1
        if kept and len(kept) < len(spec):
            tags['filtered-some-kept-some'] = 1
        if any(x['label'] in ('on_lo', 'on_hi') for x in kept):
            tags['band-edge-channel-kept'] = 1
        if any(x['label'].startswith('across_') for x in spec) and not any(x['label'].startswith('across_') for x in kept):
            tags['across-edge-channel-expected-out'] = 1
        if any(x['label'].startswith('just_inside_') for x in kept):
            tags['just-inside-edge-channel-kept'] = 1
        if len(common) >= 2:
            tags['multi-band-path'] = 1
        if len(common) >= 3:
            tags['three-band-path'] = 1
        if viol:
            break
    # one request object propagated in both directions (what a bidirectional request does): each direction keeps the channels
    # of the band common to ITS amplifiers
    if not viol and case['spectrum'] != 'uniform':
        paths = c.all_simple_trx_paths(net)
        for p1 in paths:
            p2 = next((q for q in paths if q[0].uid == p1[-1].uid and q[-1].uid == p1[0].uid), None)
            if p2 is None:
                continue
            c1, u1 = path_common_bands(p1)
            c2, u2 = path_common_bands(p2)
            if c1 == c2:
                continue
            spec = edge_spectrum(sorted(set(c1) | set(c2)), sorted(set(u1) | set(u2)), case['variant'])
            req = c.make_request(equipment, p1[0].uid, p1[-1].uid, spectrum=spec)
            for p, com in ((p1, c1), (p2, c2)):
                kept = expected_kept(spec, com)
                try:
                    pth, si, rec = c.propagate_recorded(p, req, equipment)
                except Exception as exc:  # noqa
                    if not kept and 'does not match' in str(exc):
                        continue
                    viol.append(dict(fingerprint=f'propagation-raised:{type(exc).__name__}',
                                     what=f'net {case["net"]} {p[0].uid}->{p[-1].uid} with the request object already used on the '
                                          f'opposite direction: {str(exc)[:200]}'))
                    break
                transitions += len(rec.steps)
                got = rec.steps[0]['pre']['f'].tolist()
                if len(got) != len(kept) or not np.allclose(sorted(got), [x['f'] for x in kept], rtol=0, atol=1.0):
                    viol.append(dict(fingerprint='filter-set-differs:request-reused-on-other-direction',
                                     what=f'net {case["net"]} {p[0].uid}->{p[-1].uid}: {len(got)} channels launched, expected '
                                          f'{len(kept)} (bands common to this direction {com}); the same request object was '
                                          f'propagated on the opposite direction before'))
                    break
            tags['request-reused-both-directions'] = 1
            if viol:
                break
    for v in viol:
        v['case'] = case
    return {'violations': viol[:4], 'transitions': transitions, 'traces': traces, 'nontrivial': bool(tags), 'tags': tags,
            'outcomes': [case['net']], 'sample': case}


def run_case(case):
    return run_construct(case) if case['kind'] == 'construct' else run_path(case)


def main(rep, tier, seed):
    cases = [dict(kind='construct', name=n, chans=[list(x) for x in ch], valid=v)
             for n, ch, v in carrier_lists(deep=True, deeper=tier == 'thorough')]
    n1 = len(cases)
    variants = range(3 * len(EDGE_MODES))
    for net in NETS:
        cases.append(dict(kind='path', net=net, spectrum='uniform', variant=0))
        for v in variants:
            cases.append(dict(kind='path', net=net, spectrum='edges', variant=v, orders='many'))
    results, stats = engine.run_pool('checks.c07', cases, horizon=600, chunksize=1)
    rep.absorb(results)
    rep.cov['bound'] = (f'{n1} carrier lists (all typings of 3 and 4 touching channels, every one-step overlap, baud>slot variants, '
                        f'5-channel lists' + ('; all typings of 5 touching channels of 3 types, one-step overlaps of 5' if tier == 'thorough' else '')
                        + f') x all permutations x 2 constructors; {len(NETS)} networks x every simple path x '
                        f'{len(list(variants))} edge-spectrum variants (+ uniform grid; + a second spectrum with another band split on the same '
                        f'element objects; + one request object propagated in both directions where the directions differ) x '
                        'reversed, interleaved, every rotation and every adjacent transposition of the carrier list')
    rep.cov['space_size'] = len(cases)
    rep.cov['exhaustive'] = not stats['budget_hit'] and len(results) == len(cases)
    rep.cov['rule'] = ('part 1: SpectrumError for every order of an invalid list, identical SpectralInformation for every order '
                       'of a valid one. part 2: channel kept iff its slot lies inside one band of the intersection of the path '
                       'amplifiers\' bands (independent model); the launched identity tuples must be found unchanged, once, in '
                       'frequency order at every recorded snapshot and at the receiver; results equal for all carrier orders. '
                       'Non-trivial: some channels filtered and some kept, a band-edge channel kept, multi-band path.')
    rep.assumptions += ['amplifier bands read from the built elements', 'band edges inclusive (slot may touch the band limit)']
    for k in ('construct-valid', 'construct-invalid', 'filtered-some-kept-some', 'band-edge-channel-kept', 'multi-band-path',
              'across-edge-channel-expected-out', 'just-inside-edge-channel-kept',
              'three-band-path'):
        rep.require(rep.tags.get(k, 0) >= 1, f'{k} never observed')
