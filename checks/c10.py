"""C10 - auto-selected amplifiers are allowed, capable and the quietest capable choice.

Complete enumeration of equipment libraries (every subset of size 1-3 of 12 amplifier archetypes, each archetype in two
noise-figure variants under the SAME name) x deviation-bounded enumeration of the operating point (span loss, design
power, channel count, restriction source, fibre loss coefficient incl. per-frequency tables, site graph).
Real designed_network; the required (gain, power) of every auto-selected amplifier is recomputed with C09's budget
model; permitted set, band coverage, Raman eligibility, capability and noise figure by independent models.
"""
import itertools
import math

from mc import engine
from checks import common as c
from checks import c04

ARCH = {
    'A_low': dict(type_def='variable_gain', gain_flatmax=16, gain_min=8, p_max=21, nf_min=7, nf_max=11, allowed_for_design=True),
    'A_med': dict(type_def='variable_gain', gain_flatmax=26, gain_min=15, p_max=21, nf_min=6, nf_max=10, allowed_for_design=True),
    'A_high': dict(type_def='variable_gain', gain_flatmax=35, gain_min=25, p_max=21, nf_min=5.5, nf_max=7, allowed_for_design=True),
    'A_lowpow': dict(type_def='variable_gain', gain_flatmax=26, gain_min=15, p_max=16, nf_min=5, nf_max=9, allowed_for_design=True),
    'A_fixed': dict(type_def='fixed_gain', gain_flatmax=21, gain_min=20, p_max=21, nf0=5.2, allowed_for_design=True),
    'A_quiet_na': dict(type_def='variable_gain', gain_flatmax=26, gain_min=15, p_max=21, nf_min=4.6, nf_max=8,
                       allowed_for_design=False),
    'A_L': dict(type_def='variable_gain', gain_flatmax=26, gain_min=15, p_max=21, nf_min=4.8, nf_max=8, allowed_for_design=True,
                f_min=186.5e12, f_max=190.1e12),
    'A_noisy': dict(type_def='variable_gain', gain_flatmax=26, gain_min=15, p_max=23, nf_min=8, nf_max=12, allowed_for_design=True),
    # covers the start of the C band only: permitted when the design band ends below 195 THz, never for the full band
    'A_hicut': dict(type_def='variable_gain', gain_flatmax=26, gain_min=15, p_max=21, nf_min=4.7, nf_max=8, allowed_for_design=True,
                    f_min=191.2e12, f_max=195.0e12),
    # noise figure between A_low's at its flat-gain limit (7.0 dB) and in its extended-gain window (6.93-6.98 dB): which of
    # the two is quieter depends on evaluating each model at the required gain
    'A_fix697': dict(type_def='fixed_gain', gain_flatmax=19, gain_min=18, p_max=21, nf0=6.97, allowed_for_design=True),
    # reaches 0.2 dB less gain than A_med and is quieter: when the required gain is just inside A_med's limit this model is
    # just outside (by less than the 0.3 dB window that only applies when NO model can deliver)
    'A_med258': dict(type_def='variable_gain', gain_flatmax=25.8, gain_min=15, p_max=21, nf_min=5.6, nf_max=9.6,
                     allowed_for_design=True),
    'A_raman': dict(type_def='dual_stage', raman=True, gain_min=25, preamp_variety='R_4pumps', booster_variety='R_boost',
                    allowed_for_design=True),
}
SUPPORT = {
    'R_4pumps': dict(type_def='fixed_gain', gain_flatmax=12, gain_min=12, p_max=21, nf0=-1, allowed_for_design=False),
    'R_boost': dict(type_def='variable_gain', gain_flatmax=16, gain_min=8, p_max=21, nf_min=6.5, nf_max=11, allowed_for_design=False),
}
NAMES = list(ARCH)
OP_SPACE = {
    # 147 ... 148.5 km: the preamplifier's required gain (28.22 ... 28.52 dB) crosses the extended-gain limits of A_med258
    # (28.3 dB) and A_med (28.5 dB) in 0.1 dB steps
    'length': [130, 15, 40, 70, 100, 165, 200, 147, 147.5, 148, 148.5],
    'loss': ['0.2', '0.27', 'table_ok', 'table_over_elsewhere', '0.25'],      # 0.25 = exactly the Raman limit: not below it
    'si_power': [0, -2, 3],
    'f_max': [196.1e12, 193.3e12],
    'restrict': ['none', 'variety_list', 'booster', 'preamp', 'booster+preamp', 'variety_list+booster'],
    # 'P2_fusedout': no booster (a fused element directly after the ROADM), so the first automatic amplifier of the line is
    # not adjacent to the ROADM whose booster restriction it must therefore not take; '_inline' adds an amplifier slot
    # 'P2_direct': the two ROADMs are joined without any fibre (the automatic amplifier is adjacent to both)
    'graph': ['P2', 'P2_inline', 'P2_fused', 'P2_fusedout', 'P2_fusedout_inline', 'P2_direct'],
    'amp_voa': [0.0, 2.5],
    'used_library': [0, 1],                    # the library object designed another line (165 km span) before this one
    'band_spacing': [None, 37.5e9, 100e9],     # design band of the ROADM degrees with another channel spacing than SI
    'order': ['01', '10'],
}
TABLES = {
    'table_ok': {'value': [0.23, 0.2, 0.22], 'frequency': [186e12, 193.4e12, 198e12]},
    'table_over_elsewhere': {'value': [0.27, 0.2, 0.24], 'frequency': [186e12, 193.4e12, 198e12]},
}


def library(lib, nf_variant, case):
    eq = c.eqpt_json('test')
    edfa = []
    for name in list(lib) + (list(SUPPORT) if 'A_raman' in lib else []):
        ent = dict(ARCH.get(name) or SUPPORT[name], type_variety=name, out_voa_auto=False)
        if nf_variant and 'nf_min' in ent and name in ARCH:
            # the same model name with different noise data (another vendor library using the same names)
            shift = 2.0 if NAMES.index(name) % 2 == 0 else -0.5
            ent['nf_min'] += shift
            ent['nf_max'] += shift
        edfa.append(ent)
    eq['Edfa'] = edfa
    sp = eq['Span'][0]
    sp['max_length'] = 250
    sp['delta_power_range_db'] = [-2, 3, 0.5]
    sp['max_fiber_lineic_loss_for_raman'] = 0.25
    sp['target_extended_gain'] = 2.5
    eq['SI'][0]['power_dbm'] = case['si_power']
    eq['SI'][0]['f_max'] = case['f_max']
    for r in eq['Roadm']:
        r['restrictions'] = {'preamp_variety_list': [], 'booster_variety_list': []}
    return eq


def restriction_lists(lib, kind):
    """operator restriction lists: chosen so that they exclude the first and include the last library entry, and may name a
    model that is not allowed for design"""
    lst = [n for n in lib]
    keep = lst[-1:] + [n for n in lst if n == 'A_quiet_na']
    other = lst[:1]
    out = {'variety_list': None, 'booster': [], 'preamp': []}
    if 'variety_list' in kind:
        out['variety_list'] = keep
    if 'booster' in kind:
        out['booster'] = other if 'variety_list' in kind else keep
    if 'preamp' in kind:
        out['preamp'] = other if kind == 'booster+preamp' else keep
    return out


def topology(case, lib):
    lc = TABLES.get(case['loss']) or float(case['loss'])
    r = restriction_lists(lib, case['restrict'])
    rp = {s: {'params': {'restrictions': {'preamp_variety_list': r['preamp'], 'booster_variety_list': r['booster']}}}
          for s in 'AB'}
    if case.get('band_spacing'):
        for s in 'AB':
            rp[s]['params']['design_bands'] = [{'f_min': 191.3e12, 'f_max': case['f_max'], 'spacing': case['band_spacing']}]
    amp = {'type': 'Edfa'}
    if r['variety_list'] is not None:
        amp['variety_list'] = r['variety_list']
    if case.get('amp_voa'):
        # operator-imposed output VOA on an amplifier whose model is left to auto-design
        amp['operational'] = {'out_voa': case['amp_voa']}
    f = lambda L: c.fiber(L, loss=lc)       # noqa
    if case['graph'] == 'P2':
        fwd = [f(case['length'])]
        if r['variety_list'] is not None or case.get('amp_voa'):
            fwd = [dict(amp), f(case['length'])]     # operator-placed booster slot with its own variety list / VOA
    elif case['graph'] == 'P2_direct':
        fwd = []
    elif case['graph'] == 'P2_fusedout':
        fwd = [c.fused(0.5), f(case['length'])]
    elif case['graph'] == 'P2_fusedout_inline':
        fwd = [c.fused(0.5), f(case['length']), dict(amp), f(80)]
    elif case['graph'] == 'P2_fused':
        # an operator-placed amplifier slot (model left to auto-design) that follows a fused element, not a fibre
        fwd = [f(case['length']), c.fused(0.5), dict(amp)]     # auto-design adds no amplifier after a fused element itself
    else:
        fwd = [f(case['length']), dict(amp), f(80)]
    return c.build_topology(['A', 'B'], [('A', 'B', fwd, [c.fiber(83)])], roadm_params=rp)


def nf_of(eq, name, gain):
    ent = c04.lib_entry(eq, name)
    if ent['type_def'] == 'dual_stage':
        p, b = c04.lib_entry(eq, ent['preamp_variety']), c04.lib_entry(eq, ent['booster_variety'])
        g1 = p['gain_flatmax']
        nf1 = c04.nf_single(p, g1)
        nf2 = c04.nf_single(b, gain - g1)
        return c04.lin2db(c04.db2lin(nf1) + c04.db2lin(nf2 - g1))
    return c04.nf_single(ent, gain)


def caps(eq, name):
    ent = c04.lib_entry(eq, name)
    gmin, gmax = c04.gain_range(eq, ent)
    return gmin, gmax, c04.p_max(eq, ent), bool(ent.get('raman')), ent.get('f_min', 191.275e12), ent.get('f_max', 196.125e12)


def run_case(case):
    """two designs in one process, one per noise-data variant of the library, in the order given by the case: a result that
    depends on what was designed before (hidden module state) is then reproducible from the case alone"""
    out = None
    for ch in case['order']:
        r = run_one(dict(case, nf_variant=int(ch)))
        if out is None:
            out = r
        else:
            out['violations'] = out.get('violations', []) + r.get('violations', [])
            for k in ('transitions', 'traces', 'unjudged'):
                out[k] = out.get(k, 0) + r.get(k, 0)
            out.setdefault('tags', {}).update(r.get('tags', {}))
            out['nontrivial'] = bool(out.get('nontrivial')) or bool(r.get('nontrivial'))
            out['outcomes'] = sorted(set(out.get('outcomes', [])) | set(r.get('outcomes', [])))
            if r.get('status') != 'rejected':
                out.pop('status', None)
    for v in out.get('violations', []):
        v['case'] = case
    return out


def run_one(case):
    import numpy as np
    from gnpy.core.elements import Edfa, Fiber, Fused, Roadm, Transceiver
    from gnpy.core.exceptions import ConfigurationError
    from gnpy.core.utils import automatic_nch
    lib = case['lib']
    viol = []

    def v(fp, what, **kw):
        viol.append(dict(fingerprint=fp, what=what, observed=kw, case=case))
    eq = library(lib, case['nf_variant'], case)
    topo = topology(case, lib)
    user = {e['uid']: e for e in topo['elements']}
    try:
        warm = None
        if case.get('used_library'):
            warm = topology(dict(case, graph='P2', length=165 if case['length'] != 165 else 70, loss='0.2', amp_voa=0.0), lib)
        try:
            net, equipment, _, _ = c.design(topo, eq, warm=warm)
        except ConfigurationError:
            if warm is None:
                raise
            # the other line itself may be impossible for this library: then the library object stays unused
            net, equipment, _, _ = c.design(topo, eq)
    except ConfigurationError as exc:
        return {'status': 'rejected', 'tags': {'design-rejected': 1}, 'sample': case}
    span = equipment['Span']['default']
    si = equipment['SI']['default']
    for d in c.settings_vs_document(equipment, eq)[:2]:
        v('library-settings-changed', f'after design, {d}')
    lo, hi, step = span.delta_power_range_db
    ext = span.target_extended_gain
    pref = si.power_dbm
    if case.get('band_spacing') and not si.use_si_channel_count_for_design:
        # the design load is counted on the design band of the degree
        pref_tot = pref + 10 * math.log10(automatic_nch(191.3e12, case['f_max'], case['band_spacing']))
    else:
        pref_tot = pref + 10 * math.log10(automatic_nch(si.f_min, si.f_max, si.spacing))
    band = (si.f_min, si.f_max)
    rlists = restriction_lists(lib, case['restrict'])
    tags = {}
    transitions = 0
    unjudged = 0
    from checks.c09 import round_to_step
    for start in [n for n in net.nodes() if isinstance(n, Roadm)]:
        for first in net.successors(start):
            if isinstance(first, Transceiver):
                continue
            nodes = []
            x = first
            while not isinstance(x, (Roadm, Transceiver)):
                nodes.append(x)
                x = next(iter(net.successors(x)))
            end = x
            net_prev = start.get_per_degree_ref_power(first.uid) - pref
            acc = 0.0
            prev_node = start
            for i, n in enumerate(nodes):
                if not isinstance(n, Edfa):
                    acc += float(n.loss)
                    prev_node = n
                    continue
                nxt = nodes[i + 1] if i + 1 < len(nodes) else end
                u = user.get(n.uid, {})
                chosen = n.params.type_variety
                netk = n.delta_p - n.out_voa
                if u.get('type_variety'):
                    net_prev, acc, prev_node = netk, 0.0, n
                    continue
                transitions += 1
                # required operating point (C09 model)
                if isinstance(nxt, Roadm):
                    rule, tie = 0.0, False
                else:
                    nl = 0.0
                    for m in nodes[i + 1:]:
                        if isinstance(m, Edfa):
                            break
                        nl += float(m.loss)
                    r, tie = round_to_step((nl - span.span_loss_ref) * span.power_slope, step)
                    rule = min(hi, max(lo, r))
                own_voa = float((u.get('operational') or {}).get('out_voa') or 0.0)
                gain_t = acc + rule + own_voa - net_prev
                power_t = pref_tot + rule + own_voa
                if own_voa:
                    tags['operator-voa-on-auto-amplifier'] = 1
                where = (f'{n.uid} in {start.uid}->{end.uid}: required gain {gain_t:.3f} dB, total power {power_t:.3f} dBm; '
                         f'library {lib} (nf variant {case["nf_variant"]}); chosen {chosen}')
                # permitted set by precedence
                if n.uid in user and rlists['variety_list'] is not None and user[n.uid].get('variety_list'):
                    restr, src = rlists['variety_list'], 'variety_list'
                elif isinstance(prev_node, Roadm) and rlists['booster']:
                    restr, src = rlists['booster'], 'booster_list'
                elif isinstance(nxt, Roadm) and rlists['preamp']:
                    restr, src = rlists['preamp'], 'preamp_list'
                else:
                    restr, src = None, 'allowed_for_design'
                permitted = []
                for name in lib:
                    gmin, gmax, pmx, ram, fmin, fmax = caps(eq, name)
                    if not (fmin <= band[0] and fmax >= band[1]):
                        continue
                    if restr is not None:
                        if name in restr:
                            permitted.append(name)
                    elif ARCH[name]['allowed_for_design']:
                        permitted.append(name)
                tags['restriction:' + src] = 1
                if chosen not in lib:
                    v('chosen-not-in-library', f'{where}')
                    continue
                gmin, gmax, pmx, ram, fmin, fmax = caps(eq, chosen)
                if not (fmin <= band[0] and fmax >= band[1]):
                    v('chosen-does-not-cover-band', f'{where}: band of {chosen} {fmin / 1e12}-{fmax / 1e12} THz, design band '
                      f'{band[0] / 1e12}-{band[1] / 1e12} THz')
                if chosen not in permitted:
                    v(f'chosen-not-permitted:{src}', f'{where}: permitted by {src} = {permitted}')
                    continue
                # Raman eligibility
                prev_is_fibre = isinstance(prev_node, Fiber)
                lim = span.max_fiber_lineic_loss_for_raman
                loss_vals = np.atleast_1d(prev_node.params.loss_coef * 1e3) if prev_is_fibre else np.array([99.0])
                raman_ok = prev_is_fibre and bool((loss_vals < lim - 1e-12).all())
                if ram and not raman_ok:
                    v('raman-model-not-eligible', f'{where}: previous element {prev_node.uid} '
                      f'{"loss coefficients " + str(loss_vals.tolist()) if prev_is_fibre else "is not a fibre"}, limit {lim} dB/km')
                # capability / noise
                eps = 1e-6

                def delivers(name, strict):
                    a, b, p, _, _, _ = caps(eq, name)
                    m = eps if strict else -eps
                    return gain_t <= b + ext - m and power_t <= p - m

                def in_range(name):
                    a, b, p, rm, _, _ = caps(eq, name)
                    return gain_t >= a - (0 if rm else 3) + eps

                def near_boundary(name):
                    a, b, p, rm, _, _ = caps(eq, name)
                    return (abs(gain_t - (b + ext)) < 2 * eps or abs(power_t - p) < 2 * eps or
                            abs(gain_t - (a - (0 if rm else 3))) < 2 * eps)
                usable = [m for m in permitted if not caps(eq, m)[3] or raman_ok]
                if tie or any(near_boundary(m) for m in usable):
                    unjudged += 1
                else:
                    cand = [m for m in usable if in_range(m)] or [m for m in usable if not caps(eq, m)[3]]
                    good = [m for m in cand if delivers(m, True)]
                    if good:
                        if not delivers(chosen, False):
                            v('capable-model-ignored', f'{where}: {chosen} cannot deliver (flatmax {gmax}+{ext}, p_max {pmx}) '
                              f'while {good} can')
                        else:
                            nf_c = nf_of(eq, chosen, gain_t)
                            better = [(m, nf_of(eq, m, gain_t)) for m in good if nf_of(eq, m, gain_t) < nf_c - 1e-9]
                            if better:
                                v('quieter-capable-model-exists', f'{where}: NF {nf_c:.3f} dB; quieter capable permitted models: '
                                  f'{[(m, round(x, 3)) for m, x in better]}', nf_chosen=nf_c)
                        if len(good) >= 2:
                            tags['ranking-matters'] = 1
                        if len(good) < len(permitted):
                            tags['capability-filters'] = 1
                    else:
                        tags['no-capable-model'] = 1
                tags['chosen:' + chosen] = 1
                net_prev, acc, prev_node = netk, 0.0, n
    return {'violations': viol[:6], 'transitions': transitions, 'traces': 0 if viol else 1,
            'nontrivial': 'ranking-matters' in tags or 'capability-filters' in tags, 'tags': tags, 'unjudged': unjudged,
            'outcomes': sorted(k for k in tags if k.startswith('chosen:')), 'sample': case}


def main(rep, tier, seed):
    libs = [list(x) for r in (1, 2, 3) for x in itertools.combinations(NAMES, r)]
    if tier == 'thorough':
        libs += [list(x) for x in itertools.combinations(NAMES, 4)]
    bases = [{}, {'graph': 'P2_inline', 'amp_voa': 2.5}, {'graph': 'P2_fused', 'length': 100},
             {'graph': 'P2_fusedout', 'restrict': 'booster'}, {'graph': 'P2_fusedout_inline', 'restrict': 'booster+preamp'},
             {'graph': 'P2_direct', 'restrict': 'preamp'}]
    sp = engine.Space(OP_SPACE, bases=bases)
    d = 1 if tier == 'quick' else 2
    ops = [{k: x[k] for k in OP_SPACE} for x in sp.enumerate(d, bases=bases)]
    cases = []
    for i, lib in enumerate(libs):
        for op in ops:
            if op['restrict'] != 'none' and len(lib) < 2:
                continue
            cases.append(dict(lib=lib, **op))
    results, stats = engine.run_pool('checks.c10', cases, horizon=120)
    rep.absorb(results)
    rep.cov['bound'] = (f'{len(libs)} libraries (every subset of size 1-{3 if tier == "quick" else 4} of {len(NAMES)} archetypes) x '
                        f'{len(ops)} operating points (<= {d} deviation(s) from the base points {bases} over {list(OP_SPACE)})')
    rep.cov['space_size'] = len(cases)
    rep.cov['exhaustive'] = not stats['budget_hit'] and len(results) == len(cases)
    rep.cov['rule'] = ('a case = one synthetic library + one P2 topology designed by the real designed_network; transitions = '
                       'auto-selected amplifiers judged: chosen model permitted (variety list > ROADM booster / preamp list > '
                       'allowed-for-design), covers the design band, Raman only after a fibre whose every loss coefficient is '
                       'below the limit; if a permitted in-range model delivers gain (<= flatmax + extended) and power (<= p_max) '
                       'the chosen one does and none of them is quieter at that gain. Non-trivial: >= 2 capable models or '
                       'capability removes a permitted model. Operating points within 1e-6 dB of a boundary are unjudged.')
    rep.assumptions += ['required gain/power recomputed with the C09 budget model', 'noise figures from the C04 models',
                        'every case designs twice in one process with two different NF data sets under the same model names (both orders)']
    chosen = [k for k in rep.tags if k.startswith('chosen:')]
    rep.require(len(chosen) >= 3, f'chosen model varies too little: {chosen}')
    rep.require(rep.tags.get('ranking-matters', 0) >= 10 and rep.tags.get('capability-filters', 0) >= 10, 'ranking/capability never mattered')
    for k in ('restriction:variety_list', 'restriction:booster_list', 'restriction:preamp_list', 'restriction:allowed_for_design'):
        rep.require(rep.tags.get(k, 0) >= 1, f'{k} never exercised')
