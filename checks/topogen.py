"""topogen - micro-topology / Span-configuration alphabet shared by C08, C09, C10, C17 (DESIGN.md section 2)."""
import copy

from checks import common as c

GRAPHS = {
    'P2': (['A', 'B'], [('A', 'B')]),
    'P3': (['A', 'B', 'C'], [('A', 'B'), ('B', 'C')]),
    'TRI': (['A', 'B', 'C'], [('A', 'B'), ('B', 'C'), ('A', 'C')]),
    'STAR3': (['H', 'A', 'B', 'C'], [('H', 'A'), ('H', 'B'), ('H', 'C')]),
}

PUMPS = [{'power': 0.224403, 'frequency': 205e12, 'propagation_direction': 'counterprop'},
         {'power': 0.231135, 'frequency': 201e12, 'propagation_direction': 'counterprop'}]

CHAINS = [
    'F80', 'F0.05', 'F10', 'F120', 'F200', 'F460', 'F1500', 'F80_F60', 'F40_U_F30', 'U_F60', 'F60_U', 'F30_U_U_F20',
    'E_F80', 'F80_E', 'F80_E_F70', 'Efull_F100_Efull', 'Etype_F100_Egain', 'Evoa_F90_Edp', 'F100lumped', 'F200lumped',
    'F200lumped_unsorted', 'F460lumped3', 'F200att', 'F20att', 'F80perfreq', 'R80_E', 'F80_R80', 'R30_U_F10', 'R200', 'F100_F100_F100', 'Evoa_F100', 'Evoa_F70_F70', 'F80_Evoa', 'F80conin', 'F80conout',
]


def raman_fiber(length):
    return {'type': 'RamanFiber', 'type_variety': 'SSMF',
            'params': {'length': length, 'loss_coef': 0.2, 'length_units': 'km', 'att_in': 0, 'con_in': 0.5, 'con_out': 0.5},
            'operational': {'temperature': 283, 'raman_pumps': PUMPS}}


def chain(kind, amp_low='std_low_gain', amp_med='std_medium_gain'):
    f, e, u = c.fiber, c.edfa, c.fused
    table = {
        'F80': [f(80)], 'F0.05': [f(0.05)], 'F10': [f(10)], 'F120': [f(120)], 'F200': [f(200)], 'F460': [f(460)],
        'F1500': [f(1500)],
        'F80_F60': [f(80), f(60, loss=0.22)],
        'F40_U_F30': [f(40), u(1.0), f(30)],
        'U_F60': [u(0.5), f(60)],
        'F60_U': [f(60), u(0.5)],
        'F30_U_U_F20': [f(30), u(0.5), u(0.7), f(20)],
        'E_F80': [e(), f(80)],
        'F80_E': [f(80), e()],
        'F80_E_F70': [f(80), e(), f(70)],
        'Efull_F100_Efull': [e(amp_low, gain_target=14.0, delta_p=1.0, tilt_target=0, out_voa=1.0), f(100, con_in=0.3, con_out=0.4),
                             e(amp_med, gain_target=22.0, delta_p=0.0, tilt_target=0, out_voa=0.0)],
        'Etype_F100_Egain': [e(amp_low), f(100), e(None, gain_target=21.0)],
        'Evoa_F90_Edp': [e(None, out_voa=2.0), f(90), e(amp_med, delta_p=2.0, in_voa=1.0)],
        'F100lumped': [f(100, lumped_losses=[{'position': 20, 'loss': 1.0}, {'position': 70, 'loss': 0.5}])],
        'F200lumped': [f(200, lumped_losses=[{'position': 20, 'loss': 1.0}, {'position': 150, 'loss': 0.5}])],
        # lumped losses listed in another order than their positions (the documents do not ask for an order)
        'F200lumped_unsorted': [f(200, lumped_losses=[{'position': 150, 'loss': 0.5}, {'position': 20, 'loss': 1.0}])],
        'F460lumped3': [f(460, lumped_losses=[{'position': 300, 'loss': 0.4}, {'position': 20, 'loss': 1.0},
                                              {'position': 200, 'loss': 0.7}])],
        'F200att': [f(200, att_in=2.0)],
        # a short fibre with an operator pad that is still below the padding loss: design completes the pad
        'F20att': [f(20, att_in=2.0)],
        'F80perfreq': [f(80, loss={'value': [0.22, 0.2, 0.21], 'frequency': [186e12, 193.4e12, 198e12]})],
        'R80_E': [raman_fiber(80), e()],
        'F80_R80': [f(80), raman_fiber(80)],
        # a short Raman fibre spliced to a plain fibre: the span's net loss (loss - Raman gain) is below the padding
        'R30_U_F10': [raman_fiber(30), u(0.5), f(10)],
        # a Raman fibre longer than the maximum span length
        'R200': [raman_fiber(200)],
        'F100_F100_F100': [f(100), f(100, loss=0.21), f(100, loss=0.19)],
        # operator VOA at the output of an otherwise automatic booster, followed only by automatic amplifiers
        'Evoa_F100': [e(None, out_voa=2.0), f(100)],
        'Evoa_F70_F70': [e(None, out_voa=3.5), f(70), f(70)],
        # the last amplifier of the link (the preamplifier slot) carries an operator VOA
        'F80_Evoa': [f(80), e(None, out_voa=1.5)],
        # only one of the two connector losses is given: the other one takes the Span default
        'F80conin': [f(80, con_in=0.3)],
        'F80conout': [f(60, con_out=0.7), f(40)],
    }
    return copy.deepcopy(table[kind])


def has_raman(kind):
    return kind.startswith('R') or '_R' in kind


SPAN_SPACE = {
    'padding': [10, 0, 16],
    'EOL': [0, 1.5],
    'max_length': [150, 60, 90],
    'con': [0.0, 0.5],
    'mode': ['power', 'gain'],
}


def library(case, base='test'):
    """equipment JSON with the Span / SI variations of the case applied"""
    eq = c.eqpt_json({'test': 'test', 'example': 'eqpt_config.json', 'multiband': 'eqpt_config_multiband.json',
                      'example_p228': 'eqpt_config.json'}[case.get('eq', base)])
    if case.get('eq') == 'example_p228':
        # two models whose maximum output powers differ by less than the 0.3 dB selection tolerance
        for e in eq['Edfa']:
            if e['type_variety'] == 'std_low_gain':
                e['p_max'] = 22.8
    if case.get('drop_ter'):
        # the multiband library without its low-power '_ter' family
        eq['Edfa'] = [e for e in eq['Edfa'] if not e['type_variety'].endswith('_ter')]
    sp = eq['Span'][0]
    sp['padding'] = case.get('padding', 10)
    sp['EOL'] = case.get('EOL', 0)
    sp['max_length'] = case.get('max_length', 150)
    sp['con_in'] = sp['con_out'] = case.get('con', 0.0)
    sp['power_mode'] = case.get('mode', 'power') == 'power'
    if 'dpr' in case:
        sp['delta_power_range_db'] = list(case['dpr'])
    if 'slope' in case:
        sp['power_slope'] = case['slope']
    if 'loss_ref' in case:
        sp['span_loss_ref'] = case['loss_ref']
    if 'voa_auto' in case:
        for e in eq['Edfa']:
            e['out_voa_auto'] = bool(case['voa_auto'])
        sp['voa_margin'] = 1
        sp['voa_step'] = 0.5
    if 'si_power' in case:
        eq['SI'][0]['power_dbm'] = case['si_power']
    if 'roadm_target' in case:
        for r in eq['Roadm']:
            if 'target_pch_out_db' in r:
                r['target_pch_out_db'] = case['roadm_target']
    if 'RamanFiber' not in eq:
        eq['RamanFiber'] = [dict(next(f for f in eq['Fiber'] if f['type_variety'] == 'SSMF'))]
    return eq


CB = {'f_min': 191.3e12, 'f_max': 196.1e12, 'spacing': 50e9}
LB = {'f_min': 186.6e12, 'f_max': 190.0e12, 'spacing': 50e9}
CBN = {'f_min': 191.3e12, 'f_max': 195.1e12, 'spacing': 50e9}
LBN = {'f_min': 187.4e12, 'f_max': 190.0e12, 'spacing': 50e9}


def roadm_params(case, sites):
    """ROADM design bands: 'C' (single band) or 'CL' (two bands: auto-design must build a multiband line system)"""
    if case.get('band_spacing'):
        # a single design band whose channel spacing differs from the SI one: the design load of every OMS is counted on it
        return {s: {'params': {'design_bands': [dict(CB, spacing=case['band_spacing'])]}} for s in sites}
    if case.get('eq') != 'multiband':
        return None
    b = case.get('bands', 'C')
    # 'CL_first': only the first site designs its egress links for two bands, 'CL_rest': every site but the first
    if b == 'CLn':
        # narrower C and L design bands that also fit the reduced-band amplifier models of the library
        return {s: {'params': {'design_bands': [CBN, LBN]}} for s in sites}
    two = {'C': [], 'CL': list(sites), 'CL_first': list(sites[:1]), 'CL_rest': list(sites[1:])}[b]
    return {s: {'params': {'design_bands': [CB, LB] if s in two else [CB]}} for s in sites}


def topology(case):
    sites, links = GRAPHS[case['graph']]
    ls = []
    for k, (a, b) in enumerate(links):
        if k == 0:
            fwd, rev = chain(case['chain']), chain(case.get('chain_rev', 'F80'))
        else:
            # a two-band design must not meet operator-placed single-band amplifiers (documented as inconsistent)
            mid = 'F80_F60' if case.get('bands', 'C') != 'C' else 'F80_E_F70'
            fwd, rev = chain(['F80', mid, 'F40_U_F30'][k % 3]), chain(['F80', 'F120'][k % 2])
        ls.append((a, b, fwd, rev))
    return c.build_topology(sites, ls, roadm_params=roadm_params(case, sites))


def consistent(case):
    """Span settings that contradict each other are not explored: padding implies a minimum span length of
    padding / 0.2 dB/km which must stay below max_length"""
    return case.get('padding', 10) / 0.2 < case.get('max_length', 150)
