"""C06 - a ROADM never amplifies and equalises every channel to its egress target.

Complete product over (node policy x node value x per-degree override kind/value x ROADM library type x element-level
impairment selection) of designed P3 line systems; on every designed network: every crossing kind (add / express /
drop) x spectrum x per-channel input-level pattern is driven through the real Roadm.__call__, plus a full recorded
propagation.  Oracle: out_i = min(T_i + delta_i, in_i - maxloss_i) computed from the *input documents* only.
Part 2: every combination of 0..3 equalisation keys at library and element level -> exactly one in force, or error.
"""
import itertools
import math

from mc import engine
from checks import common as c

POLICY_KEYS = {'pch': 'target_pch_out_db', 'psd': 'target_psd_out_mWperGHz', 'psw': 'target_out_mWperSlotWidth'}
PER_DEGREE_KEYS = {'pch': 'per_degree_pch_out_db', 'psd': 'per_degree_psd_out_mWperGHz',
                   'psw': 'per_degree_psd_out_mWperSlotWidth'}
# values: dBm for the reference carrier 32 GBaud / 50 GHz
NODE_DBM = [-20.0, -25.0, -12.0, 0.0]      # 0 dBm per channel: a valid target whose value happens to be falsy
OVER_DBM = [-21.0, -17.0]
VARIETIES = ['plain', 'imp', 'imp_pd', 'impR', 'impR_pd0']
# express profile in force: the per-degree choice if there is one, else the first express profile listed in the library
# ('impR*': the library lists its profiles in the reverse order, so that id 3 comes before id 0)
EXPRESS_ID = {'imp': 0, 'imp_pd': 3, 'impR': 3, 'impR_pd0': 0}
C_LO, C_HI = 191.3e12, 196.1e12
SPLIT = 193.5e12

SPECTRA = {
    'mixed6': dict(f=[192.0e12, 192.05e12, 192.1125e12, 193.8e12, 193.8625e12, 195.9e12],
                   baud=[32e9, 32e9, 64e9, 32e9, 64e9, 16e9], slot=[50e9, 50e9, 75e9, 50e9, 75e9, 25e9],
                   dp=[0.0, -2.0, 1.5, 0.0, 1.5, -2.0]),
    'uniform4': dict(f=[193.0e12, 193.05e12, 193.1e12, 193.15e12], baud=[32e9] * 4, slot=[50e9] * 4, dp=[0.0] * 4),
    # same size as uniform4, in the other frequency range of the per-band profiles, then back: consecutive crossings of one
    # ROADM object by equally sized spectra that need different path losses
    'high4': dict(f=[194.0e12, 194.05e12, 194.1e12, 194.15e12], baud=[32e9] * 4, slot=[50e9] * 4, dp=[0.0] * 4),
    'low4_again': dict(f=[192.5e12, 192.55e12, 192.6e12, 192.65e12], baud=[32e9] * 4, slot=[50e9] * 4, dp=[0.0] * 4),
    'one': dict(f=[193.475e12], baud=[64e9], slot=[75e9], dp=[1.5]),
    'edge2': dict(f=[193.4625e12, 193.5375e12], baud=[64e9, 64e9], slot=[75e9, 75e9], dp=[0.0, -2.0]),
}
LEVELS = [8.0, 0.5, -0.5, -8.0]     # input power relative to (target + offset + maxloss)
PATTERNS = ['all_above', 'all_below', 'alternate', 'one_below', 'ramp', 'just_above', 'just_below']


def value(kind, dbm):
    """policy value giving `dbm` for the reference carrier"""
    if kind == 'pch':
        return dbm
    if kind == 'psd':
        return 10 ** (dbm / 10) / 32.0       # mW/GHz
    return 10 ** (dbm / 10) / 50.0


def target_dbm(kind, val, baud, slot):
    if kind == 'pch':
        return val
    if kind == 'psd':
        return 10 * math.log10(val * baud * 1e-9)
    return 10 * math.log10(val * slot * 1e-9)


def library(case):
    eq = c.eqpt_json('test')
    imp = [
        {'roadm-path-impairments-id': 0, 'roadm-express-path': [
            {'frequency-range': {'lower-frequency': C_LO - 1e12, 'upper-frequency': C_HI + 1e12},
             'roadm-pmd': 3e-12, 'roadm-pdl': 0.3, 'roadm-maxloss': 16.5}]},
        {'roadm-path-impairments-id': 1, 'roadm-add-path': [
            {'frequency-range': {'lower-frequency': C_LO - 1e12, 'upper-frequency': SPLIT},
             'roadm-pmd': 0, 'roadm-pdl': 0.5, 'roadm-maxloss': 11.5, 'roadm-osnr': 41},
            {'frequency-range': {'lower-frequency': SPLIT, 'upper-frequency': C_HI + 1e12},
             'roadm-pmd': 0, 'roadm-pdl': 0.2, 'roadm-maxloss': 5, 'roadm-osnr': 35}]},
        {'roadm-path-impairments-id': 2, 'roadm-drop-path': [
            {'frequency-range': {'lower-frequency': C_LO - 1e12, 'upper-frequency': C_HI + 1e12},
             'roadm-pmd': 0, 'roadm-pdl': 0, 'roadm-maxloss': 11.5, 'roadm-osnr': 41}]},
        {'roadm-path-impairments-id': 3, 'roadm-express-path': [
            {'frequency-range': {'lower-frequency': C_LO - 1e12, 'upper-frequency': SPLIT},
             'roadm-pmd': 1e-12, 'roadm-pdl': 0.1, 'roadm-maxloss': 2.0},
            {'frequency-range': {'lower-frequency': SPLIT, 'upper-frequency': C_HI + 1e12},
             'roadm-pmd': 1e-12, 'roadm-pdl': 0.1, 'roadm-maxloss': 9.0}]},
    ]
    nk = POLICY_KEYS[case['lib_policy']]
    base = {'add_drop_osnr': 38, 'pmd': 2e-12, 'pdl': 0.4,
            'restrictions': {'preamp_variety_list': [], 'booster_variety_list': []}}
    eq['Roadm'] = [
        dict(base, type_variety='plain', **{nk: value(case['lib_policy'], -19.0)}),
        dict(base, type_variety='imp', **{nk: value(case['lib_policy'], -19.0),
                                          'roadm-path-impairments': imp[::-1] if case['variety'].startswith('impR') else imp}),
    ]
    return eq


def maxloss_for(case, kind, f):
    if case['variety'] == 'plain':
        return 0.0
    if kind == 'add':
        return 11.5 if f <= SPLIT else 5.0
    if kind == 'drop':
        return 11.5
    if EXPRESS_ID[case['variety']] == 3:
        return 2.0 if f <= SPLIT else 9.0
    return 16.5


def pmd_pdl_for(case, kind, f):
    if case['variety'] == 'plain':
        return 2e-12, 0.4
    if kind == 'add':
        return 0.0, (0.5 if f <= SPLIT else 0.2)
    if kind == 'drop':
        return 0.0, 0.0
    if EXPRESS_ID[case['variety']] == 3:
        return 1e-12, 0.1
    return 3e-12, 0.3


def topology(case):
    """A - B - C line, user amplifiers so that gains are known; ROADM B carries the per-degree settings"""
    params = {}
    if case['node_policy'] != 'lib':
        params[POLICY_KEYS[case['node_policy']]] = value(case['node_policy'], NODE_DBM[case['node_val']])
    egress_b = 'B>C:0:Edfa'
    egress_a = 'A>B:0:Edfa'
    pa = dict(params)
    pb = dict(params)
    if case['override'] != 'none':
        v = value(case['override'], OVER_DBM[case['over_val']])
        pb[PER_DEGREE_KEYS[case['override']]] = {egress_b: v}
        pa[PER_DEGREE_KEYS[case['override']]] = {egress_a: v}
    if case['variety'] in ('imp_pd', 'impR_pd0'):
        pb['per_degree_impairments'] = [{'from_degree': 'A>B:2:Edfa', 'to_degree': egress_b,
                                         'impairment_id': EXPRESS_ID[case['variety']]}]
    var = 'plain' if case['variety'] == 'plain' else 'imp'
    rp = {'A': {'type_variety': var, 'params': pa}, 'B': {'type_variety': var, 'params': pb},
          'C': {'type_variety': var, 'params': dict(params)}}
    span = lambda: [c.edfa('std_medium_gain'), c.fiber(80), c.edfa('std_medium_gain')]   # noqa
    return c.build_topology(['A', 'B', 'C'], [('A', 'B', span(), span()), ('B', 'C', span(), span())], roadm_params=rp)


def node_policy(case):
    if case['node_policy'] == 'lib':
        return case['lib_policy'], value(case['lib_policy'], -19.0)
    return case['node_policy'], value(case['node_policy'], NODE_DBM[case['node_val']])


def expected_targets(case, roadm_site, kind, baud, slot):
    """target (dBm) per channel from the input documents: egress degree's setting if one exists, else the node's"""
    pol, val = node_policy(case)
    if kind != 'drop' and roadm_site in ('A', 'B') and case['override'] != 'none':
        pol, val = case['override'], value(case['override'], OVER_DBM[case['over_val']])
    return [target_dbm(pol, val, b, s) for b, s in zip(baud, slot)]


def make_si(spec, pch_dbm, order=None):
    """order: permutation in which the carriers are handed to the constructor (the result must not depend on it)"""
    import numpy as np
    from gnpy.core.info import create_arbitrary_spectral_information
    o = list(range(len(spec['f']))) if order is None else order
    return create_arbitrary_spectral_information(
        frequency=np.array(spec['f'])[o], pch=1e-3 * 10 ** (np.array(pch_dbm)[o] / 10), baud_rate=np.array(spec['baud'])[o],
        slot_width=np.array(spec['slot'])[o], delta_pdb_per_channel=np.array(spec['dp'])[o], tx_osnr=40.0, tx_power=1e-3,
        roll_off=0.1, pmd=2e-12, pdl=0.25, label='x')


def levels(pattern, n):
    if pattern == 'all_above':
        return [LEVELS[0]] * n
    if pattern == 'all_below':
        return [LEVELS[3]] * n
    if pattern == 'alternate':
        return [LEVELS[0] if i % 2 == 0 else LEVELS[3] for i in range(n)]
    if pattern == 'one_below':
        return [LEVELS[3] if i == n // 2 else LEVELS[0] for i in range(n)]
    if pattern == 'ramp':
        return [LEVELS[i % 4] for i in range(n)]
    if pattern == 'just_above':
        return [LEVELS[1]] * n
    return [LEVELS[2] if i % 2 else LEVELS[1] for i in range(n)]


def judge_crossing(case, site, kind, pre, post, viol, where, dp_of=None):
    """compare one ROADM crossing (pre/post snapshot dicts) with the oracle"""
    import numpy as np
    f = pre['f']
    if len(post['f']) != len(f) or not np.array_equal(post['f'], f):
        viol.append(dict(fingerprint='roadm-changed-channel-set', what=f'{where}: channel set changed'))
        return 0
    # the offset of a channel is the one it was configured with (by frequency), whatever the order of construction
    dp = pre['dp'] if dp_of is None else np.array([dp_of[round(float(x))] for x in f])
    if dp_of is not None and not np.allclose(dp, pre['dp'], atol=1e-12):
        viol.append(dict(fingerprint='channel-offset-moved-to-another-channel', what=f'{where}: per-channel offsets seen by the '
                         f'ROADM {pre["dp"].tolist()} differ from the configured ones {dp.tolist()} (by frequency)'))
    tgt = np.array(expected_targets(case, site, kind, pre['baud'], pre['slot'])) + dp
    ml = np.array([maxloss_for(case, kind, x) for x in f])
    pin = 10 * np.log10(pre['pch']) + 30
    pout = 10 * np.log10(post['pch']) + 30
    exp = np.minimum(tgt, pin - ml)
    branches = 0
    for i in range(len(f)):
        if pout[i] > pin[i] + 1e-9:
            viol.append(dict(fingerprint='roadm-amplifies', what=f'{where}: channel {f[i] / 1e12:.4f} THz leaves with '
                             f'{pout[i]:.4f} dBm, entered with {pin[i]:.4f} dBm'))
        if abs(pout[i] - exp[i]) > 1e-9:
            viol.append(dict(fingerprint=f'roadm-output-not-min-target-input:{kind}',
                             what=f'{where}: channel {f[i] / 1e12:.4f} THz ({pre["baud"][i] / 1e9:g}G/{pre["slot"][i] / 1e9:g}G, '
                                  f'offset {pre["dp"][i]}) out {pout[i]:.6f} dBm, expected min(target+offset='
                                  f'{tgt[i]:.6f}, in-maxloss={pin[i] - ml[i]:.6f}) = {exp[i]:.6f}',
                             observed=float(pout[i]), expected=float(exp[i])))
            break
        branches |= 1 if tgt[i] <= pin[i] - ml[i] else 2
    # ratios untouched, PMD/PDL in quadrature
    for k in ('sr', 'ar', 'nr'):
        if not np.array_equal(pre[k], post[k]):
            viol.append(dict(fingerprint='roadm-changed-noise-shares', what=f'{where}: {k} changed'))
    pp = np.array([pmd_pdl_for(case, kind, x) for x in f])
    if not np.allclose(post['pmd'], np.sqrt(pre['pmd'] ** 2 + pp[:, 0] ** 2), rtol=1e-9, atol=0):
        viol.append(dict(fingerprint='roadm-pmd', what=f'{where}: PMD not added in quadrature: {post["pmd"][:2]}'))
    if not np.allclose(post['pdl'], np.sqrt(pre['pdl'] ** 2 + pp[:, 1] ** 2), rtol=1e-9, atol=0):
        viol.append(dict(fingerprint='roadm-pdl', what=f'{where}: PDL not added in quadrature: {post["pdl"][:2]}'))
    return branches


def run_net(case):
    import numpy as np
    from gnpy.core.exceptions import ConfigurationError, EquipmentConfigError, ParametersError
    viol = []
    eq = library(case)
    topo = topology(case)
    try:
        net, equipment, _, _ = c.design(topo, eq)
    except (ConfigurationError, EquipmentConfigError, ParametersError) as exc:
        return {'violations': [dict(fingerprint=f'valid-config-rejected:{type(exc).__name__}',
                                    what=f'design rejected a valid single-policy configuration: {str(exc)[:200]}')],
                'transitions': 1}
    if case.get('saved'):
        # the designed network is saved (network_to_json), loaded again and designed again: the ROADMs of a saved design
        # must equalise to the same targets of the original document
        import json
        from gnpy.tools.json_io import network_to_json
        from gnpy.tools.convert_legacy_yang import yang_to_legacy
        try:
            saved = yang_to_legacy(json.loads(json.dumps(network_to_json(net))))
            net, equipment, _, _ = c.design(saved, eq)
        except Exception as exc:  # noqa
            return {'violations': [dict(fingerprint=f'saved-design-cannot-be-loaded:{type(exc).__name__}',
                                        what=f'{type(exc).__name__}: {str(exc)[:300]}', case=case)], 'transitions': 1}
    transitions = 0
    branches = 0
    crossings = {'A': ('add', 'trx A', 'A>B:0:Edfa'), 'B': ('express', 'A>B:2:Edfa', 'B>C:0:Edfa'),
                 'C': ('drop', 'B>C:2:Edfa', 'trx C')}
    for site, (kind, frm, to) in crossings.items():
        roadm = c.node(net, f'roadm {site}')
        for sname, spec in SPECTRA.items():
            base_t = np.array(expected_targets(case, site, kind, spec['baud'], spec['slot'])) + np.array(spec['dp'])
            ml = np.array([maxloss_for(case, kind, x) for x in spec['f']])
            for pat in PATTERNS:
                pin = base_t + ml + np.array(levels(pat, len(spec['f'])))
                dp_of = {round(float(x)): d for x, d in zip(spec['f'], spec['dp'])}
                n = len(spec['f'])
                for oname, order in (('ascending', None), ('descending', list(range(n))[::-1]),
                                     ('interleaved', list(range(n))[::2] + list(range(n))[1::2])):
                    si = make_si(spec, pin, order)
                    pre = c.snap(si)
                    out = roadm(si, degree=to, from_degree=frm)
                    post = c.snap(out)
                    transitions += 1
                    where = (f'{kind} crossing of roadm {site} ({frm} -> {to}), spectrum {sname} built in {oname} order, '
                             f'input pattern {pat}')
                    n0 = len(viol)
                    branches |= judge_crossing(case, site, kind, pre, post, viol, where, dp_of)
                    if len(viol) > n0:
                        break
                if len(viol) == n0:
                    # reported attributes consistent with the snapshots
                    if not np.allclose(roadm.pch_out_dbm, 10 * np.log10(post['pch']) + 30, atol=1e-9) or \
                            not np.allclose(roadm.loss_pch_db, 10 * np.log10(pre['pch'] / post['pch']), atol=1e-9):
                        viol.append(dict(fingerprint='roadm-reported-values', what=f'{where}: pch_out_dbm / loss_pch_db '
                                         'differ from the propagated spectrum'))
    # full propagation A -> C and C -> A with the recorder
    for src, dst in (('trx A', 'trx C'), ('trx C', 'trx A')):
        for sname in ('mixed6', 'edge2'):
            spec = SPECTRA[sname]
            spectrum = [dict(f=f, baud=b, slot=s, dp=d, power_dbm=p) for f, b, s, d, p in
                        zip(spec['f'], spec['baud'], spec['slot'], spec['dp'], [0.0, -12.0, 3.0, -30.0, 0.0, -5.0])]
            if sname == 'edge2' or src == 'trx C':
                spectrum = spectrum[::-1]        # carriers handed over in descending frequency order
            dp_of = {round(float(x)): d for x, d in zip(spec['f'], spec['dp'])}
            req = c.make_request(equipment, src, dst, spectrum=spectrum)
            path = next(p for p in c.all_simple_trx_paths(net) if p[0].uid == src and p[-1].uid == dst)
            try:
                pth, si, rec = c.propagate_recorded(path, req, equipment)
            except Exception as exc:  # noqa
                viol.append(dict(fingerprint=f'propagation-raised:{type(exc).__name__}', what=str(exc)[:200]))
                continue
            for st in rec.steps:
                if st['cls'] != 'Roadm':
                    continue
                site = st['uid'].split()[-1]
                frm, to = st['kwargs']['from_degree'], st['kwargs']['degree']
                kind = 'add' if frm.startswith('trx') else 'drop' if to.startswith('trx') else 'express'
                if src == 'trx C':
                    # reverse direction: per-degree overrides were put on the A->B / B->C egress only
                    rcase = dict(case, override='none')
                    if case['variety'] in ('imp_pd', 'impR_pd0'):
                        rcase['variety'] = case['variety'].split('_')[0]
                else:
                    rcase = case
                transitions += 1
                branches |= judge_crossing(rcase, site, kind, st['pre'], st['post'], viol,
                                           f'{kind} crossing of roadm {site} in propagation {src}->{dst} ({sname})', dp_of)
    for v in viol:
        v['case'] = case
    over_differs = case['override'] != 'none' and case['override'] != node_policy(case)[0]
    return {'violations': viol[:12], 'transitions': transitions, 'traces': 0 if viol else 1,
            'nontrivial': branches == 3 and (over_differs or case['variety'] != 'plain'),
            'tags': {'branches-both': int(branches == 3), 'override-other-type': int(over_differs),
                     'saved-design': int(bool(case.get('saved')))},
            'outcomes': [f'{node_policy(case)[0]}/{case["override"]}/{case["variety"]}'],
            'sample': case}


# ---- part 2: exactly one policy in force ---------------------------------------------------------------------------
def run_keys(case):
    from gnpy.core.exceptions import ConfigurationError, EquipmentConfigError, ParametersError
    import numpy as np
    lib_keys, el_keys = case['lib_keys'], case['el_keys']
    eq = c.eqpt_json('test')
    base = {'add_drop_osnr': 38, 'pmd': 0, 'pdl': 0,
            'restrictions': {'preamp_variety_list': [], 'booster_variety_list': []}, 'type_variety': 'plain'}
    for k in lib_keys:
        base[POLICY_KEYS[k]] = value(k, -19.0)
    eq['Roadm'] = [base]
    params = {POLICY_KEYS[k]: value(k, -23.0) for k in el_keys}
    rp = {s: {'type_variety': 'plain', 'params': dict(params)} for s in 'AB'}
    topo = c.build_topology(['A', 'B'], [('A', 'B', [c.edfa('std_medium_gain'), c.fiber(80), c.edfa('std_medium_gain')],
                                          [c.edfa('std_medium_gain'), c.fiber(80), c.edfa('std_medium_gain')])],
                            roadm_params=rp)
    must_fail = len(lib_keys) != 1 or len(el_keys) > 1
    viol = []
    try:
        net, equipment, _, _ = c.design(topo, eq)
    except (ConfigurationError, EquipmentConfigError, ParametersError) as exc:
        if not must_fail:
            viol.append(dict(fingerprint='single-policy-rejected', what=f'library keys {lib_keys} + element keys {el_keys} '
                             f'is a valid single-policy configuration but was rejected: {str(exc)[:150]}'))
        return {'violations': viol, 'status': 'ok' if viol == [] else 'violation', 'rejected': 1, 'transitions': 1,
                'tags': {'config-error': 1}, 'nontrivial': True, 'sample': case}
    if must_fail:
        viol.append(dict(fingerprint='ambiguous-policy-accepted', what=f'library keys {lib_keys} + element keys {el_keys} '
                         'was accepted although it does not define exactly one equalisation policy'))
        return {'violations': viol, 'transitions': 1, 'nontrivial': True, 'sample': case}
    pol, val = (el_keys[0], value(el_keys[0], -23.0)) if el_keys else (lib_keys[0], value(lib_keys[0], -19.0))
    roadm = c.node(net, 'roadm A')
    set_now = [k for k in ('target_pch_out_dbm', 'target_psd_out_mWperGHz', 'target_out_mWperSlotWidth')
               if getattr(roadm, k) is not None]
    if len(set_now) != 1:
        viol.append(dict(fingerprint='not-exactly-one-policy', what=f'roadm carries policies {set_now} for library {lib_keys} '
                         f'element {el_keys}'))
    spec = SPECTRA['mixed6']
    tg = np.array([target_dbm(pol, val, b, s) for b, s in zip(spec['baud'], spec['slot'])]) + np.array(spec['dp'])
    si = make_si(spec, tg + 6.0)
    out = roadm(si, degree='A>B:0:Edfa', from_degree='trx A')
    got = 10 * np.log10(out.pch) + 30
    if not np.allclose(got, tg, atol=1e-9):
        viol.append(dict(fingerprint='wrong-policy-in-force', what=f'library {lib_keys} element {el_keys}: outputs '
                         f'{got.tolist()} expected {tg.tolist()} ({pol})'))
    return {'violations': viol, 'transitions': 2, 'traces': 0 if viol else 1, 'nontrivial': True,
            'tags': {'policy-in-force:' + pol: 1}, 'sample': case}


def run_case(case):
    if case['kind'] == 'net':
        return run_net(case)
    return run_keys(case)


def main(rep, tier, seed):
    cases = []
    pols = ['pch', 'psd', 'psw']
    for lib_policy in pols:
        for node_policy_ in pols + ['lib']:
            for node_val in (range(len(NODE_DBM)) if node_policy_ != 'lib' else [0]):
                for override in ['none'] + pols:
                    for over_val in (range(2) if override != 'none' else [0]):
                        for variety in VARIETIES:
                            for saved in (0, 1):
                                cases.append(dict(kind='net', lib_policy=lib_policy, node_policy=node_policy_, node_val=node_val,
                                                  override=override, over_val=over_val, variety=variety, saved=saved))
    subsets = [list(x) for r in range(4) for x in itertools.combinations(pols, r)]
    for lk in subsets:
        for ek in subsets:
            cases.append(dict(kind='keys', lib_keys=lk, el_keys=ek))
    results, stats = engine.run_pool('checks.c06', cases, horizon=300)
    rep.absorb(results)
    rep.cov['bound'] = ('full product: library policy x node policy{pch,psd,psw,library default} x 4 target values (0 dBm included) x per-degree '
                        'override{none,pch,psd,psw} x 2 values x ROADM type{no impairments, per-band impairment profiles listed in two orders, '
                        'element-selected profile id 3 / id 0} x {designed network, saved + reloaded + redesigned network}; per network 3 crossing kinds x 6 spectra (two of them equally sized in different loss ranges, consecutively on one ROADM object) x 7 input-level patterns x 3 carrier construction orders + 4 '
                        'recorded propagations; part 2: all 8x8 subsets of equalisation keys at library and element level')
    rep.cov['space_size'] = len(cases)
    rep.cov['exhaustive'] = not stats['budget_hit'] and len(results) == len(cases)
    rep.cov['rule'] = ('each case designs a real P3 line system (designed_network) from generated JSON and drives the real '
                       'Roadm.__call__; oracle min(target+offset, input-maxloss) from the input documents. transitions = ROADM '
                       'crossings judged. Non-trivial: both min() branches taken in the case and (override type differs '
                       'from the node type, or a path-loss profile is present).')
    rep.assumptions += ['reference carrier 32 GBaud / 50 GHz (SI default of the vendored test library)',
                        'impairment profiles cover the whole spectrum (a profile that omits a band is a configuration error)']
    rep.require(rep.tags.get('branches-both', 0) >= 10, 'min() branches not both exercised')
    rep.require(rep.tags.get('saved-design', 0) >= 10, 'saved designs not exercised')
    rep.require(rep.tags.get('override-other-type', 0) >= 10, 'no per-degree override of a type different from the node type')
    rep.require(rep.tags.get('config-error', 0) >= 1 and sum(v for k, v in rep.tags.items() if k.startswith('policy-in-force')) >= 3,
                'equalisation-key combinations did not exercise both errors and all three policies')
