"""Shared generators and observation helpers (DESIGN.md section 2): eqptgen, topogen, specgen, recorder.

Everything is emitted as plain legacy-JSON dicts that go through gnpy's real loaders.  Observation is done by
wrapping the element classes' __call__ from the harness process; /repo carries no hook code.
"""
import contextlib
import copy
import json
import os

from mc import engine

DATA = os.path.join(engine.VERIF, 'data')
EXAMPLE = os.path.join(engine.REPO, 'gnpy', 'example-data')


def _load(path):
    with open(path) as f:
        return json.load(f)


_CACHE = {}


def eqpt_json(name='test'):
    """deep copy of a base equipment library (legacy JSON dict)"""
    if name not in _CACHE:
        if name == 'test':
            _CACHE[name] = _load(os.path.join(DATA, 'eqpt_test.json'))
        else:
            from gnpy.tools.json_io import load_gnpy_json
            from pathlib import Path
            _CACHE[name] = load_gnpy_json(Path(os.path.join(EXAMPLE, name)))
    return copy.deepcopy(_CACHE[name])


def make_equipment(eq):
    from gnpy.tools.json_io import _equipment_from_json
    from gnpy.tools.default_edfa_config import DEFAULT_EXTRA_CONFIG
    return _equipment_from_json(copy.deepcopy(eq), DEFAULT_EXTRA_CONFIG)


def set_sim_params(d=None):
    from gnpy.core.parameters import SimParams
    SimParams.set_params(d or {})


# ---------------------------------------------------------------------------------------------------
# topogen
# ---------------------------------------------------------------------------------------------------
def fiber(length_km, loss=0.2, variety='SSMF', **params):
    p = {'length': length_km, 'loss_coef': loss, 'length_units': 'km'}
    p.update(params)
    return {'type': 'Fiber', 'type_variety': variety, 'params': p}


def edfa(variety=None, **operational):
    e = {'type': 'Edfa'}
    if variety:
        e['type_variety'] = variety
    if operational:
        e['operational'] = operational
    return e


def fused(loss=1.0):
    return {'type': 'Fused', 'params': {'loss': loss}}


def build_topology(sites, links, roadm_params=None, trx=True, name='verif'):
    """sites: list of ROADM site names.  links: list of (a, b, chain_ab, chain_ba); a chain is a list of element
    dicts without uid (uids are assigned 'a>b:i:type').  roadm_params: {site: {'type_variety':..., 'params': {...}}}.
    Returns a legacy topology dict."""
    els, cons = [], []
    roadm_params = roadm_params or {}
    for s in sites:
        r = {'uid': f'roadm {s}', 'type': 'Roadm'}
        r.update(copy.deepcopy(roadm_params.get(s, {})))
        els.append(r)
        if trx:
            els.append({'uid': f'trx {s}', 'type': 'Transceiver'})
            cons.append({'from_node': f'trx {s}', 'to_node': f'roadm {s}'})
            cons.append({'from_node': f'roadm {s}', 'to_node': f'trx {s}'})
    for a, b, ab, ba in links:
        for x, y, chain in ((a, b, ab), (b, a, ba)):
            if chain is None:
                continue
            prev = f'roadm {x}'
            for i, e in enumerate(chain):
                e = copy.deepcopy(e)
                e = dict({'uid': e.get('uid', f'{x}>{y}:{i}:{e["type"]}')}, **e)     # list key first (libyang's JSON parser)
                els.append(e)
                cons.append({'from_node': prev, 'to_node': e['uid']})
                prev = e['uid']
            cons.append({'from_node': prev, 'to_node': f'roadm {y}'})
    return {'network_name': name, 'elements': els, 'connections': cons}


def load_network(topo, equipment):
    from gnpy.tools.json_io import network_from_json
    return network_from_json(copy.deepcopy(topo), equipment)


def design(topo, eq, source=None, destination=None, sim=None, warm=None, **kw):
    """equipment from JSON + network from JSON + designed_network; returns (network, equipment, req, ref_req).
    warm: a topology document that is loaded and auto-designed FIRST with the same equipment object (a process that loads
    its library once and designs several networks): the design of `topo` must not depend on it."""
    from gnpy.tools.worker_utils import designed_network
    set_sim_params(sim)
    equipment = make_equipment(eq)
    if warm is not None:
        designed_network(equipment, load_network(warm, equipment))
    network = load_network(topo, equipment)
    network, req, ref = designed_network(equipment, network, source=source, destination=destination, **kw)
    return network, equipment, req, ref


def settings_vs_document(equipment, eq):
    """Span and SI settings of the loaded library (after whatever was done with it) that differ from the equipment DOCUMENT:
    oracles that read them from the loaded object are only as good as this comparison.  Returns a list of texts."""
    out = []
    for section, obj in (('Span', equipment['Span']['default']), ('SI', equipment['SI']['default'])):
        doc = eq[section][0]
        for k, val in doc.items():
            if k == 'type_variety' or not hasattr(obj, k):
                continue
            got = getattr(obj, k)
            same = (list(got) == list(val)) if isinstance(val, (list, tuple)) else \
                (got == val or (isinstance(val, (int, float)) and isinstance(got, (int, float)) and abs(got - val) <= 1e-12 * max(1, abs(val))))
            if not same:
                out.append(f'{section}.{k}: loaded library says {got!r}, document {val!r}')
    return out


def node(network, uid):
    return next(n for n in network.nodes() if n.uid == uid)


# ---------------------------------------------------------------------------------------------------
# recorder
# ---------------------------------------------------------------------------------------------------
def snap(si):
    """per-channel snapshot keyed by frequency"""
    import numpy as np
    return {
        'f': np.array(si.frequency, dtype=float), 'pch': np.array(si.pch, dtype=float),
        'sr': np.array(si._signal_ratio, dtype=float), 'ar': np.array(si._ase_ratio, dtype=float),
        'nr': np.array(si._nli_ratio, dtype=float), 'baud': np.array(si.baud_rate, dtype=float),
        'slot': np.array(si.slot_width, dtype=float), 'cd': np.array(si.chromatic_dispersion, dtype=float),
        'pmd': np.array(si.pmd, dtype=float), 'pdl': np.array(si.pdl, dtype=float),
        'lat': np.array(si.latency, dtype=float), 'label': list(si.label), 'tx_osnr': np.array(si.tx_osnr, dtype=float),
        'tx_power': np.array(si.tx_power, dtype=float), 'roll_off': np.array(si.roll_off, dtype=float),
        'dp': np.array(si.delta_pdb_per_channel, dtype=float),
    }


class Recorder:
    def __init__(self):
        self.steps = []   # dict(uid, cls, pre, post, el, kwargs)


@contextlib.contextmanager
def recording():
    """wrap __call__ of every element class; yields a Recorder whose steps list pre/post snapshots"""
    from gnpy.core import elements as E
    rec = Recorder()
    classes = [E.Transceiver, E.Roadm, E.Fused, E.Fiber, E.RamanFiber, E.Edfa, E.Multiband_amplifier]
    saved = {}
    depth = {'n': 0}

    def wrap(cls):
        orig = cls.__dict__.get('__call__')
        if orig is None:
            return
        saved[cls] = orig

        def __call__(self, spectral_info, *a, **k):
            nested = depth['n'] > 0
            pre = None if nested else snap(spectral_info)
            depth['n'] += 1
            try:
                out = orig(self, spectral_info, *a, **k)
            finally:
                depth['n'] -= 1
            if not nested:
                rec.steps.append({'uid': self.uid, 'cls': type(self).__name__, 'pre': pre, 'post': snap(out),
                                  'el': self, 'kwargs': k})
            return out
        cls.__call__ = __call__
    for c in classes:
        wrap(c)
    try:
        yield rec
    finally:
        for c, orig in saved.items():
            c.__call__ = orig


# ---------------------------------------------------------------------------------------------------
# specgen
# ---------------------------------------------------------------------------------------------------
def carriers(spec):
    """spec: list of dicts(f (Hz), baud, slot, dp (dB), power_dbm, tx_osnr, label, roll_off) -> initial_spectrum"""
    from gnpy.core.info import Carrier
    out = {}
    for c in spec:
        out[c['f']] = Carrier(delta_pdb=c.get('dp', 0.0), baud_rate=c.get('baud', 32e9), slot_width=c.get('slot', 50e9),
                              roll_off=c.get('roll_off', 0.15), tx_osnr=c.get('tx_osnr', 40.0),
                              tx_power=1e-3 * 10 ** (c.get('power_dbm', 0.0) / 10), label=c.get('label', 'c'))
    return out


SPECTRA = {
    'uniform': None,   # request default comb (f_min..f_max of SI)
    'one': [dict(f=193.5e12)],
    'two_mixed': [dict(f=193.0e12, baud=32e9, slot=50e9), dict(f=193.1e12, baud=64e9, slot=75e9, dp=1.5, label='b')],
    'five_mixed': [dict(f=192.0e12), dict(f=192.05e12, dp=-2.0), dict(f=192.1125e12, baud=64e9, slot=75e9, dp=3.0, label='b'),
                   dict(f=192.175e12, power_dbm=-5.0), dict(f=195.9e12, baud=16e9, slot=25e9, label='n', tx_osnr=30.0)],
    'edges': [dict(f=191.325e12), dict(f=193.7e12, baud=64e9, slot=75e9, label='b'), dict(f=196.075e12)],
    'hot': [dict(f=193.0e12 + i * 50e9, power_dbm=3.0, dp=3.0) for i in range(8)],
}


# ---------------------------------------------------------------------------------------------------
# a small library of micro line systems used by several checks
# ---------------------------------------------------------------------------------------------------
def micro_topologies():
    """name -> (topology json, list of (source, destination))"""
    t = {}
    t['p2_80'] = build_topology(['A', 'B'], [('A', 'B', [fiber(80)], [fiber(80)])])
    t['p2_2spans'] = build_topology(['A', 'B'], [('A', 'B', [fiber(80), edfa(), fiber(60, loss=0.22)],
                                                  [fiber(60, loss=0.22), edfa(), fiber(80)])])
    t['p2_fused'] = build_topology(['A', 'B'], [('A', 'B', [fiber(40), fused(1.0), fiber(30)],
                                                 [fiber(30), fused(1.0), fiber(40)])])
    t['p2_user_amps'] = build_topology(['A', 'B'], [
        ('A', 'B', [edfa('std_low_gain', gain_target=12, out_voa=1.0), fiber(100, att_in=1.0, con_in=0.5, con_out=0.5),
                    edfa('std_medium_gain', gain_target=21.5, tilt_target=-1.0, out_voa=0.5)],
         [edfa('std_low_gain'), fiber(100), edfa('test')])])
    t['p3_mixed'] = build_topology(['A', 'B', 'C'], [
        ('A', 'B', [fiber(70), edfa(), fiber(90, loss=0.21)], [fiber(90, loss=0.21), edfa(), fiber(70)]),
        ('B', 'C', [fiber(120)], [fiber(120)])])
    t['p2_long'] = build_topology(['A', 'B'], [('A', 'B', [fiber(200)], [fiber(200)])])
    t['p2_short'] = build_topology(['A', 'B'], [('A', 'B', [fiber(0.5)], [fiber(0.5)])])
    t['tri'] = build_topology(['A', 'B', 'C'], [
        ('A', 'B', [fiber(50)], [fiber(50)]), ('B', 'C', [fiber(60)], [fiber(60)]),
        ('A', 'C', [fiber(150)], [fiber(150)])])
    return t


def all_simple_trx_paths(network, max_len=60):
    """every simple transceiver-to-transceiver path of a (designed) network, as lists of elements"""
    import networkx as nx
    from gnpy.core.elements import Transceiver
    trx = [n for n in network.nodes() if isinstance(n, Transceiver)]
    out = []
    for s in trx:
        for d in trx:
            if s is d:
                continue
            for p in nx.all_simple_paths(network, s, d, cutoff=max_len):
                # a path must not cross an intermediate transceiver
                if any(isinstance(e, Transceiver) for e in p[1:-1]):
                    continue
                out.append(p)
    return out


def make_request(equipment, source, destination, spectrum=None, power_dbm=None, tx_power_dbm=None, **over):
    """PathRequest built the way designed_network builds the channel to propagate (trx_mode_params of SI)"""
    from gnpy.core.equipment import trx_mode_params
    from gnpy.core.utils import dbm2watt, automatic_nch
    from gnpy.topology.request import PathRequest
    si = equipment['SI']['default']
    p = si.power_dbm if power_dbm is None else power_dbm
    params = {'request_id': 'r', 'trx_type': '', 'trx_mode': '', 'source': source, 'destination': destination,
              'bidir': False, 'nodes_list': [destination], 'loose_list': ['STRICT'], 'format': '', 'path_bandwidth': 0,
              'effective_freq_slot': None, 'nb_channel': automatic_nch(si.f_min, si.f_max, si.spacing),
              'power': dbm2watt(p), 'tx_power': dbm2watt(p if tx_power_dbm is None else tx_power_dbm)}
    params.update(trx_mode_params(equipment))
    params.update(over)
    req = PathRequest(**params)
    req.initial_spectrum = carriers(spectrum) if spectrum else None
    return req


def propagate_recorded(path, req, equipment, copy_path=True):
    """deep copy of the path (as planning() does) propagated by the real request.propagate under the recorder;
    copy_path=False propagates on the given element objects themselves (as the transmission example does, several times)"""
    from gnpy.topology.request import propagate
    pth = copy.deepcopy(path) if copy_path else path
    with recording() as rec:
        si = propagate(pth, req, equipment)
    return pth, si, rec


# ---------------------------------------------------------------------------------------------------
# C01 part B: bookkeeping invariants on every snapshot of real propagations
# ---------------------------------------------------------------------------------------------------
PROP_EQPTS = ['test', 'eqpt_config.json']


def propagation_cases(tier, seed, purpose):
    topos = sorted(micro_topologies())
    spectra = sorted(SPECTRA)
    cases = []
    eqs = PROP_EQPTS if tier == 'thorough' else [PROP_EQPTS[seed % len(PROP_EQPTS)]]
    sims = [None, {'raman_params': {'flag': True, 'method': 'perturbative', 'order': 2},
                   'nli_params': {'method': 'ggn_spectrally_separated', 'computed_channels': [1, 2]}}]
    for eq in eqs:
        for t in topos:
            for s in spectra:
                for sim_i, sim in enumerate(sims):
                    if sim is not None and (s not in ('two_mixed', 'five_mixed') or t not in ('p2_80', 'p2_2spans')):
                        continue
                    cases.append({'kind': 'propagation', 'eq': eq, 'topo': t, 'spectrum': s, 'sim': sim})
    return cases


def snapshot_invariants(s, where):
    """C01 invariants on one snapshot dict"""
    import numpy as np
    out = []
    tot = s['sr'] + s['ar'] + s['nr']
    bad = np.where(np.abs(tot - 1.0) > 1e-9)[0]
    if len(bad):
        out.append(dict(fingerprint='propagation:shares-do-not-sum', what=f'{where}: signal+ase+nli shares sum to '
                        f'{tot[bad[0]]!r} on channel {bad[0]}'))
    for nm in ('sr', 'ar', 'nr'):
        v = s[nm]
        if (v < -1e-15).any() or (v > 1 + 1e-12).any() or np.isnan(v).any():
            out.append(dict(fingerprint=f'propagation:share-out-of-range:{nm}', what=f'{where}: {nm} = {v.tolist()}'))
    if (s['pch'] < 0).any() or np.isnan(s['pch']).any():
        out.append(dict(fingerprint='propagation:negative-power', what=f'{where}: pch = {s["pch"].tolist()}'))
    return out


def c01_propagation_case(case):
    import numpy as np
    from gnpy.core.elements import Transceiver
    topo = micro_topologies()[case['topo']]
    eq = eqpt_json(case['eq'])
    try:
        network, equipment, _req, _ref = design(topo, eq, sim=case['sim'])
    except Exception as exc:  # noqa
        return {'status': 'rejected', 'violations': [], 'tags': {f'design-raised:{type(exc).__name__}': 1}}
    viol = []
    transitions = 0
    traces = 0
    nontriv = False
    kinds = set()
    for path in all_simple_trx_paths(network):
        req = make_request(equipment, path[0].uid, path[-1].uid, spectrum=SPECTRA[case['spectrum']])
        try:
            pth, si, rec = propagate_recorded(path, req, equipment)
        except Exception as exc:  # noqa
            from gnpy.core.exceptions import SpectrumError
            if isinstance(exc, (SpectrumError,)) or 'does not match amplifiers band' in str(exc):
                continue
            viol.append(dict(fingerprint=f'propagation:exception:{type(exc).__name__}', what=f'{exc}',
                             case=case))
            continue
        ok = True
        for st in rec.steps:
            transitions += 1
            vs = snapshot_invariants(st['post'], f'after {st["cls"]} {st["uid"]}')
            # conservation: passive elements and amplifiers never change the identity of the power split
            viol.extend(vs)
            ok = ok and not vs
            kinds.add(st['cls'])
        rx = pth[-1]
        if isinstance(rx, Transceiver) and rx.snr is not None:
            with np.errstate(divide='ignore'):
                lhs = 10 ** (-rx.snr / 10)
                rhs = 10 ** (-rx.osnr_ase / 10) + 10 ** (-rx.osnr_nli / 10)
                lhs_raw = 10 ** (-rx.raw_snr / 10)
                rhs_raw = 10 ** (-rx.raw_osnr_ase / 10) + 10 ** (-rx.raw_osnr_nli / 10)
            if not np.allclose(lhs, rhs, rtol=1e-9, atol=0):
                viol.append(dict(fingerprint='receiver:gsnr-identity', what=f'1/GSNR != 1/OSNR_ASE + 1/SNR_NLI at '
                                 f'{rx.uid}: {lhs.tolist()} vs {rhs.tolist()}'))
                ok = False
            if not np.allclose(lhs_raw, rhs_raw, rtol=1e-9, atol=0):
                viol.append(dict(fingerprint='receiver:raw-gsnr-identity', what=f'raw figures at {rx.uid}'))
                ok = False
            # reported figures are the spectral information's shares
            last = rec.steps[-1]['post']
            with np.errstate(divide='ignore'):
                g = 10 * np.log10(last['sr'] / (last['ar'] + last['nr']))
            if not np.allclose(g, rx.raw_snr, rtol=0, atol=1e-9):
                viol.append(dict(fingerprint='receiver:figures-not-from-shares', what=f'{rx.uid}: raw_snr differs from shares'))
                ok = False
            nontriv = nontriv or bool((last['ar'] > 0).any() and (last['nr'] > 0).any())
        traces += ok
    for v in viol:
        v.setdefault('case', case)
    return {'violations': viol, 'transitions': transitions, 'traces': traces, 'nontrivial': nontriv,
            'outcomes': [], 'tags': {f'el:{k}': 1 for k in kinds},
            'sample': {k: case[k] for k in ('eq', 'topo', 'spectrum')}}


UPDATE_MENU = [[40.0], [30.0, 35.0], [None, 38.0], [45.0, 33.0, 33.0]]


def c01_receiver_case(case):
    """all sequences of <= 3 update_snr() calls on a propagated receiver: the 1/GSNR identity holds after each and
    the figures depend only on the last call (no accumulation over the history)"""
    import itertools
    import numpy as np
    topo = micro_topologies()[case['topo']]
    network, equipment, _req, _ref = design(topo, eqpt_json(case['eq']), sim=None)
    viol = []
    transitions = 0
    traces = 0
    for path in all_simple_trx_paths(network)[:2]:
        req = make_request(equipment, path[0].uid, path[-1].uid, spectrum=SPECTRA[case['spectrum']])
        try:
            pth, si, rec = propagate_recorded(path, req, equipment)
        except Exception:  # noqa  (judged by the propagation cases)
            continue
        rx0 = pth[-1]
        solo = {}
        for i, args in enumerate(UPDATE_MENU):
            r = copy.deepcopy(rx0)
            r.update_snr(*args)
            solo[i] = {k: np.array(getattr(r, k)) for k in ('snr', 'osnr_ase', 'osnr_nli', 'snr_01nm', 'osnr_ase_01nm')}
        for depth in (1, 2, 3):
            for seq in itertools.product(range(len(UPDATE_MENU)), repeat=depth):
                r = copy.deepcopy(rx0)
                ok = True
                for i in seq:
                    r.update_snr(*UPDATE_MENU[i])
                    transitions += 1
                    with np.errstate(divide='ignore'):
                        lhs = 10 ** (-r.snr / 10)
                        rhs = 10 ** (-r.osnr_ase / 10) + 10 ** (-r.osnr_nli / 10)
                    if not np.allclose(lhs, rhs, rtol=1e-9, atol=0):
                        viol.append(dict(fingerprint='receiver:gsnr-identity-after-recomputation',
                                         what=f'after update_snr sequence {[UPDATE_MENU[j] for j in seq]}: 1/GSNR={lhs[:2].tolist()} '
                                              f'!= 1/OSNR_ASE + 1/SNR_NLI={rhs[:2].tolist()}'))
                        ok = False
                        break
                    for k, v in solo[i].items():
                        if not np.allclose(getattr(r, k), v, rtol=0, atol=1e-9):
                            viol.append(dict(fingerprint=f'receiver:figures-depend-on-history:{k}',
                                             what=f'{k} after sequence {[UPDATE_MENU[j] for j in seq]} differs from the value '
                                                  f'after only the last call'))
                            ok = False
                            break
                    if not ok:
                        break
                traces += ok
    for v in viol:
        v.setdefault('case', case)
    return {'violations': viol[:20], 'transitions': transitions, 'traces': traces, 'nontrivial': True,
            'sample': {k: case[k] for k in ('eq', 'topo', 'spectrum')} | {'kind': 'receiver'}}


def c01_roundtrip_case(case):
    """a path and then its opposite direction propagated on the SAME network objects (no copy), twice: after every
    propagation every transceiver of the path - the transmitting one too - reports figures that obey the 1/GSNR identity"""
    import numpy as np
    topo = micro_topologies()[case['topo']]
    try:
        network, equipment, _req, _ref = design(topo, eqpt_json(case['eq']), sim=None)
    except Exception as exc:  # noqa  (a topology that names models of another library: as in c01_propagation_case)
        return {'status': 'rejected', 'violations': [], 'tags': {f'design-raised:{type(exc).__name__}': 1}}
    viol, transitions, traces = [], 0, 0
    paths = all_simple_trx_paths(network)
    for p in paths[:2]:
        q = next((x for x in paths if x[0].uid == p[-1].uid and x[-1].uid == p[0].uid), None)
        if q is None:
            continue
        for k, path in enumerate([p, q, p, q]):
            req = make_request(equipment, path[0].uid, path[-1].uid, spectrum=SPECTRA[case['spectrum']])
            try:
                pth, si, rec = propagate_recorded(path, req, equipment, copy_path=False)
            except Exception:  # noqa  (judged by the propagation cases)
                break
            ok = True
            for trx in (pth[0], pth[-1]):
                transitions += 1
                if trx.snr is None or trx.osnr_ase is None or trx.osnr_nli is None:
                    continue
                with np.errstate(divide='ignore'):
                    lhs = 10 ** (-np.array(trx.snr, dtype=float) / 10)
                    rhs = 10 ** (-np.array(trx.osnr_ase, dtype=float) / 10) + 10 ** (-np.array(trx.osnr_nli, dtype=float) / 10)
                if lhs.shape != rhs.shape or not np.allclose(lhs, rhs, rtol=1e-9, atol=1e-30):
                    side = 'transmitting' if trx is pth[0] else 'receiving'
                    viol.append(dict(fingerprint=f'transceiver:gsnr-identity:{side}-side-after-reuse',
                                     what=f'propagation {k + 1} ({path[0].uid}->{path[-1].uid}) on the same network objects: the '
                                          f'{side} transceiver {trx.uid} reports 1/GSNR={lhs[:2].tolist()} but 1/OSNR_ASE + '
                                          f'1/SNR_NLI={rhs[:2].tolist()}'))
                    ok = False
            traces += ok
    for v in viol:
        v.setdefault('case', case)
    return {'violations': viol[:8], 'transitions': transitions, 'traces': traces, 'nontrivial': True,
            'tags': {'roundtrip-on-same-objects': 1}, 'sample': dict(case)}


def c01_multiband_case(case):
    """multi-band propagations (incl. a band that carries exactly one channel): the bookkeeping invariants hold at every
    snapshot and band split/merge inside multi-band amplifiers neither loses nor duplicates a channel"""
    import numpy as np
    from checks import c07
    net, equipment, _, _ = design(c07.network(case['net']), c07.library())
    viol, transitions, traces = [], 0, 0
    for path in all_simple_trx_paths(net):
        common, union = c07.path_common_bands(path)
        spec = []
        for k, (lo, hi) in enumerate(common):
            n = 1 if (k + case['variant']) % len(common) == 0 else 3       # one band holds a single channel
            for i in range(n):
                spec.append(dict(f=lo + 100e9 + i * 150e9, baud=32e9, slot=50e9, power_dbm=-1.0 * i, label=f'b{k}'))
        req = make_request(equipment, path[0].uid, path[-1].uid, spectrum=sorted(spec, key=lambda x: x['f']))
        try:
            pth, si, rec = propagate_recorded(path, req, equipment)
        except Exception as exc:  # noqa
            viol.append(dict(fingerprint=f'multiband-propagation-raised:{type(exc).__name__}', what=f'{case}: {str(exc)[:150]}'))
            continue
        n0 = len(rec.steps[0]['pre']['f'])
        ok = True
        for st in rec.steps:
            transitions += 1
            vs = snapshot_invariants(st['post'], f'after {st["cls"]} {st["uid"]}')
            if len(st['post']['f']) != n0:
                vs.append(dict(fingerprint='band-split-merge-lost-channels', what=f'{case}: {st["cls"]} {st["uid"]} returns '
                               f'{len(st["post"]["f"])} of {n0} channels (bands {common})'))
            viol.extend(vs)
            ok = ok and not vs
        traces += ok
    for v in viol:
        v.setdefault('case', case)
    return {'violations': viol[:6], 'transitions': transitions, 'traces': traces, 'nontrivial': True,
            'tags': {'multiband-propagation': 1}, 'sample': case}
