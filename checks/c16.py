"""C16 - each request's result is independent of the other requests in the batch.

On designed micro networks, a menu of mutually non-aggregatable requests (light, dense saturating, automatic mode,
bidirectional, dense bidirectional, blocked by a STRICT include, no feasible mode, spacing below every mode): every
subset of size 1-3 (thorough: + size 4 samples) in every order through the real planning(), plus histories of two
successive batches on the same network object, plus API-built requests (no explicit route lists) through
compute_path_dsjctn / compute_path_with_disjunction.  Differential oracle: result in the batch == result alone on a
fresh network; network export and amplifier settings unchanged after every batch.
"""
import copy
import itertools
import json

from mc import engine
from checks import common as c
from checks import reqgen as rg

NETS = ['P3', 'TRI', 'P3_lowpmax', 'P3_CL', 'SQ']
# SQ: square A-B-C-D with the diagonal B-D; requests between the same transceivers that differ only in their include lists
SQ_NAMES = ['light', 'via_bd', 'via_db', 'via_b_loose', 'via_b', 'bidir', 'blocked', 'imp_loose', 'imp_strict']
SIMS = {'default': {}, 'ggn3': {'nli_params': {'method': 'ggn_spectrally_separated', 'computed_number_of_channels': 3},
                                 'raman_params': {'flag': False}}}
SPECTRUM_REASONS = {'NO_SPECTRUM', 'NOT_ENOUGH_RESERVED_SPECTRUM'}


def library(net):
    eq = c.eqpt_json('test' if net != 'P3_CL' else 'eqpt_config_multiband.json')
    eq['Transceiver'].append({'type_variety': 'T_hard', 'frequency': {'min': 191.35e12, 'max': 196.1e12}, 'mode': [
        {'format': 'h1', 'baud_rate': 32e9, 'OSNR': 45, 'bit_rate': 100e9, 'roll_off': 0.15, 'tx_osnr': 40, 'min_spacing': 50e9,
         'cost': 1},
        {'format': 'h2', 'baud_rate': 64e9, 'OSNR': 48, 'bit_rate': 200e9, 'roll_off': 0.15, 'tx_osnr': 40, 'min_spacing': 75e9,
         'cost': 1}]})
    eq['Transceiver'].append({'type_variety': 'T_dense', 'frequency': {'min': 191.35e12, 'max': 196.1e12}, 'mode': [
        {'format': 'd1', 'baud_rate': 32e9, 'OSNR': 10, 'bit_rate': 100e9, 'roll_off': 0.15, 'tx_osnr': 40, 'min_spacing': 37.5e9,
         'cost': 1}]})
    if net == 'P3_lowpmax':
        for e in eq['Edfa']:
            e['p_max'] = 18
    return eq


def topology(net):
    span = lambda L: [c.fiber(L)]     # noqa
    if net == 'P3_CL':
        # two-band (C+L) line system: every amplifier on the routes is a Multiband_amplifier holding per-band amplifiers
        bands = [{'f_min': 191.3e12, 'f_max': 196.1e12, 'spacing': 50e9}, {'f_min': 186.6e12, 'f_max': 190.0e12, 'spacing': 50e9}]
        rp = {s: {'params': {'design_bands': bands}} for s in 'ABC'}
        return c.build_topology(['A', 'B', 'C'], [('A', 'B', span(80), span(80)), ('B', 'C', span(70), span(70))], roadm_params=rp)
    if net == 'SQ':
        return c.build_topology(['A', 'B', 'C', 'D'], [('A', 'B', span(60), span(60)), ('B', 'C', span(70), span(70)),
                                                       ('C', 'D', span(50), span(50)), ('D', 'A', span(65), span(65)),
                                                       ('B', 'D', span(40), span(40))])
    if net in ('P3', 'P3_lowpmax'):
        return c.build_topology(['A', 'B', 'C'], [('A', 'B', span(80), span(80)), ('B', 'C', span(100), span(100))])
    return c.build_topology(['A', 'B', 'C'], [('A', 'B', span(80), span(80)), ('B', 'C', span(60), span(60)),
                                              ('A', 'C', span(170), span(170))])


def menu():
    hot = 2e-3
    return {
        'light': rg.request('light', 'trx A', 'trx C', trx_type='Voyager', mode='mode 1', spacing=50e9, bandwidth=100e9),
        # twins: identical except for the transmitter output power (one too weak to be equalised up to the ROADM target)
        'twin_lo': rg.request('twin_lo', 'trx A', 'trx B', trx_type='Voyager', mode='mode 1', spacing=50e9, bandwidth=100e9,
                              tx_power=1e-6),
        'twin_hi': rg.request('twin_hi', 'trx A', 'trx B', trx_type='Voyager', mode='mode 1', spacing=50e9, bandwidth=100e9,
                              tx_power=1e-3),
        'dense_hot': rg.request('dense_hot', 'trx A', 'trx C', trx_type='T_dense', mode='d1', spacing=37.5e9,
                                bandwidth=300e9, power=hot),
        'auto': rg.request('auto', 'trx A', 'trx B', trx_type='Voyager', mode=None, spacing=75e9, bandwidth=200e9),
        'bidir': rg.request('bidir', 'trx C', 'trx A', trx_type='Voyager', mode='mode 1', spacing=50e9, bidir=True),
        'dense_bidir': rg.request('dense_bidir', 'trx B', 'trx C', trx_type='T_dense', mode='d1', spacing=37.5e9,
                                  bidir=True, power=hot),
        'blocked': rg.request('blocked', 'trx A', 'trx B', trx_type='Voyager', mode='mode 1', spacing=50e9,
                              include=[('roadm C', 'STRICT'), ('roadm A', 'STRICT')]),
        # only on SQ: the same end points and the same include nodes in the two possible orders (both routable), a LOOSE and a
        # STRICT list with one node
        'via_bd': rg.request('via_bd', 'trx A', 'trx C', trx_type='Voyager', mode='mode 1', spacing=50e9,
                             include=[('roadm B', 'STRICT'), ('roadm D', 'STRICT')]),
        'via_db': rg.request('via_db', 'trx A', 'trx C', trx_type='Voyager', mode='mode 1', spacing=50e9,
                             include=[('roadm D', 'STRICT'), ('roadm B', 'STRICT')]),
        'via_b_loose': rg.request('via_b_loose', 'trx A', 'trx C', trx_type='Voyager', mode='mode 1', spacing=50e9,
                                  include=[('roadm B', 'LOOSE')]),
        'via_b': rg.request('via_b', 'trx A', 'trx C', trx_type='Voyager', mode='mode 1', spacing=50e9,
                            include=[('roadm B', 'STRICT')]),
        # the same impossible include list (the destination's ROADM first) once LOOSE (dropped: shortest route) and once STRICT
        # (blocked)
        'imp_loose': rg.request('imp_loose', 'trx A', 'trx C', trx_type='Voyager', mode='mode 1', spacing=50e9,
                                include=[('roadm C', 'LOOSE'), ('roadm B', 'LOOSE')]),
        'imp_strict': rg.request('imp_strict', 'trx A', 'trx C', trx_type='Voyager', mode='mode 1', spacing=50e9,
                                 include=[('roadm C', 'STRICT'), ('roadm B', 'STRICT')]),
        'nomode': rg.request('nomode', 'trx B', 'trx A', trx_type='T_hard', mode=None, spacing=75e9),
        'nospacing': rg.request('nospacing', 'trx C', 'trx B', trx_type='Voyager', mode=None, spacing=30e9),
    }


def fresh(net, sim='default'):
    return c.design(topology(net), library(net), sim=SIMS[sim])


def summarize(rq, pp, rp):
    import numpy as np

    def rx(path):
        if not path:
            return None
        r = path[-1]
        return {k: np.array(getattr(r, k)).round(12).tolist() for k in ('snr_01nm', 'osnr_ase_01nm', 'osnr_nli', 'snr', 'osnr_ase')
                if getattr(r, k, None) is not None}
    reason = getattr(rq, 'blocking_reason', None)
    return {'route': [e.uid for e in pp], 'mode': rq.tsp_mode, 'baud': rq.baud_rate, 'fwd': rx(pp), 'rev': rx(rp),
            'rev_route': [e.uid for e in rp] if rp else [],
            'reason': None if reason in SPECTRUM_REASONS else reason}


def all_amps(nodes):
    """(name, amplifier) for every single-band amplifier and every per-band amplifier of the multi-band ones"""
    from gnpy.core.elements import Edfa, Multiband_amplifier
    for n in nodes:
        if isinstance(n, Edfa):
            yield n.uid, n
        elif isinstance(n, Multiband_amplifier):
            for band, a in n.amplifiers.items():
                yield f'{n.uid}[{band}]', a


def amp_settings(net):
    return {u: (n.effective_gain, n.delta_p, n.out_voa, n.tilt_target, n.in_voa) for u, n in all_amps(net.nodes())}


def run_batch(network, equipment, names):
    from gnpy.tools.worker_utils import planning
    m = menu()
    doc = rg.service([m[n] for n in names])
    res = planning(network, equipment, doc)
    oms_list, ppaths, rpaths, rqs, dsjn, result = res
    out = {rq.request_id: summarize(rq, pp, rp) for rq, pp, rp in zip(rqs, ppaths, rpaths)}
    # did the propagated copies clamp their gain (saturation) while the designed network kept its own?
    design = {u: n.effective_gain for u, n in all_amps(network.nodes())}
    for rq, pp, rp in zip(rqs, ppaths, rpaths):
        out[rq.request_id]['clamped'] = any(a.effective_gain < design[u] - 1e-9
                                            for path in (pp, rp or []) for u, a in all_amps(path))
    return out


_SOLO = {}


def solo(net, name, sim='default'):
    if (net, name, sim) not in _SOLO:
        network, equipment, _, _ = fresh(net, sim)
        _SOLO[(net, name, sim)] = run_batch(network, equipment, [name])[name]
    return _SOLO[(net, name, sim)]


def compare(a, b):
    """first difference between two summaries (figures within 1e-9 dB)"""
    import numpy as np
    for k in ('route', 'mode', 'baud', 'reason', 'rev_route'):
        if a[k] != b[k]:
            return f'{k}: {str(a[k])[:120]} vs {str(b[k])[:120]}'
    for d in ('fwd', 'rev'):
        if (a[d] is None) != (b[d] is None):
            return f'{d}: present on one side only'
        if a[d] is None:
            continue
        for k in a[d]:
            if k not in b[d] or len(a[d][k]) != len(b[d][k]) or not np.allclose(a[d][k], b[d][k], rtol=0, atol=1e-9):
                x, y = np.array(a[d][k]), np.array(b[d].get(k, []))
                delta = float(np.max(np.abs(x - y))) if x.shape == y.shape else 'shape'
                return f'{d}.{k}: differs by {delta} dB (e.g. {x[:2].tolist()} vs {y[:2].tolist()})'
    return None


def run_case(case):
    net = case['net']
    if case['kind'] == 'api':
        return run_api(case)
    sim = case.get('sim', 'default')
    try:
        return run_batches(case, net, sim)
    finally:
        c.set_sim_params({})


def run_batches(case, net, sim):
    from gnpy.tools.json_io import network_to_json
    viol = []
    tags = {}
    transitions = 0
    traces = 0
    for b in case['batches']:
        for n in b:
            solo(net, n, sim)          # reference results first: each on its own fresh network
    network, equipment, _, _ = fresh(net, sim)
    export0 = json.dumps(network_to_json(network), sort_keys=True)
    amps0 = amp_settings(network)
    for bi, names in enumerate(case['batches']):
        where = f'network {net}, batch {names}' + (f' (after batch {case["batches"][0]} on the same network)' if bi else '')
        try:
            got = run_batch(network, equipment, names)
        except Exception as exc:  # noqa
            viol.append(dict(fingerprint=f'planning-raised:{type(exc).__name__}', what=f'{where}: {str(exc)[:200]}'))
            break
        ok = True
        for pos, n in enumerate(names):
            transitions += 1
            if n not in got:
                viol.append(dict(fingerprint='request-has-no-result-of-its-own', what=f'{where}: no result under id {n}; ids '
                                 f'returned: {sorted(got)}'))
                ok = False
                continue
            d = compare(solo(net, n, sim), got[n])
            if d:
                prev = names[:pos]
                viol.append(dict(fingerprint=f'result-depends-on-batch:{d.split(":")[0].split(".")[0]}',
                                 what=f'{where}: request {n} (position {pos}, after {prev}) differs from its result alone: {d}'))
                ok = False
        if json.dumps(network_to_json(network), sort_keys=True) != export0:
            viol.append(dict(fingerprint='network-export-changed-by-requests', what=f'{where}: network_to_json differs after the batch'))
            ok = False
        a1 = amp_settings(network)
        if a1 != amps0:
            ch = [u for u in amps0 if amps0[u] != a1.get(u)]
            viol.append(dict(fingerprint='amplifier-settings-changed-by-requests', what=f'{where}: settings of {ch[:3]} changed: '
                             f'{amps0[ch[0]]} -> {a1[ch[0]]}'))
            ok = False
        traces += ok
        if any(solo(net, n, sim).get('clamped') for n in names) and len(names) > 1:
            tags['saturating-request-in-batch'] = 1
        if len({solo(net, n, sim)['reason'] for n in names}) > 1:
            tags['mixed-outcomes'] = 1
    for v in viol:
        v['case'] = case
    return {'violations': viol[:6], 'transitions': transitions, 'traces': traces, 'nontrivial': len(case['batches'][0]) > 1,
            'tags': dict(tags, **{'sim:' + sim: 1, 'net:' + net: 1}),
            'outcomes': [str(solo(net, n, sim)['reason']) for b in case['batches'] for n in b], 'sample': case}


def run_api(case):
    """requests built through the API without explicit route lists, as a library user would"""
    from gnpy.core.equipment import trx_mode_params
    from gnpy.core.utils import dbm2watt
    from gnpy.topology.request import PathRequest, compute_path_dsjctn, compute_path_with_disjunction
    from gnpy.topology.spectrum_assignment import build_oms_list
    viol = []
    net = case['net']

    def build(pairs):
        network, equipment, _, _ = fresh(net)
        build_oms_list(network, equipment)
        rqs = []
        for k, (s, d) in enumerate(pairs):
            params = {'request_id': f'api{k}', 'source': s, 'destination': d, 'bidir': False, 'trx_type': 'Voyager',
                      'trx_mode': 'mode 1', 'format': 'mode 1', 'spacing': 50e9, 'path_bandwidth': 100e9, 'nb_channel': 20,
                      'power': dbm2watt(0), 'tx_power': dbm2watt(0),
                      'effective_freq_slot': [{'N': None, 'M': None}]}
            params.update(trx_mode_params(equipment, 'Voyager', 'mode 1', True))
            rqs.append(PathRequest(**params))
        pths = compute_path_dsjctn(network, equipment, rqs, [])
        pp, rv, rpp = compute_path_with_disjunction(network, equipment, rqs, pths)
        return [summarize(rq, p, []) for rq, p in zip(rqs, pp)]
    pairs = [tuple(p) for p in case['pairs']]
    try:
        alone = [build([p])[0] for p in pairs]
        together = build(pairs)
    except Exception as exc:  # noqa
        return {'violations': [dict(fingerprint=f'api-requests-raised:{type(exc).__name__}', what=str(exc)[:200], case=case)],
                'transitions': 1}
    for p, a, b in zip(pairs, alone, together):
        d = compare(a, b)
        if d:
            viol.append(dict(fingerprint=f'api-result-depends-on-batch:{d.split(":")[0]}', what=f'network {net}: request {p} built '
                             f'without route lists, computed after {pairs[:pairs.index(p)]}: {d}', case=case))
    return {'violations': viol, 'transitions': len(pairs), 'traces': 0 if viol else 1, 'nontrivial': True,
            'tags': {'api-batch': 1}, 'sample': case}


def main(rep, tier, seed):
    all_names = [n for n in menu() if not n.startswith('via_') and not n.startswith('imp_')]
    cases = []
    for net in NETS:
        names = all_names if net != 'SQ' else SQ_NAMES
        batches = [list(p) for k in (1, 2) for p in itertools.permutations(names, k)]
        triples = list(itertools.permutations(names, 3))
        if tier == 'quick' and net != 'SQ':
            triples = [t for i, t in enumerate(triples) if (i + seed) % 6 == 0]
        batches += [list(t) for t in triples]
        if net == 'SQ':
            for b in batches:
                cases.append(dict(kind='batch', net=net, batches=[b]))
            continue
        if tier == 'thorough':
            quads = list(itertools.permutations(names, 4))
            batches += [list(q) for i, q in enumerate(quads) if i % 20 == seed % 20]
        for b in batches:
            cases.append(dict(kind='batch', net=net, batches=[b]))
        if net == 'P3':
            # the same ordered pairs (and the histories below) under a GGN NLI method that evaluates 3 channels under test
            # spread over each request's own comb
            for b in batches:
                if len(b) == 2:
                    cases.append(dict(kind='batch', net=net, batches=[b], sim='ggn3'))
        # histories: two successive batches on the same network object
        firsts = [['dense_hot'], ['dense_bidir', 'auto'], ['blocked', 'nomode'], ['bidir', 'dense_hot']]
        seconds = [['light'], ['bidir'], ['auto', 'light'], ['dense_bidir']]
        for f in firsts:
            for s in seconds:
                cases.append(dict(kind='batch', net=net, batches=[f, s]))
                if net == 'P3':
                    cases.append(dict(kind='batch', net=net, batches=[f, s], sim='ggn3'))
        prs = [('trx A', 'trx C'), ('trx A', 'trx B'), ('trx C', 'trx B'), ('trx B', 'trx A')]
        for k in (2, 3):
            for p in itertools.permutations(prs, k):
                cases.append(dict(kind='api', net=net, pairs=[list(x) for x in p]))
    results, stats = engine.run_pool('checks.c16', cases, horizon=900, chunksize=8)
    rep.absorb(results)
    rep.cov['bound'] = (f'{len(NETS) - 1} networks x every ordered batch of 1-2 requests from a menu of {len(all_names)} + '
                        f'{"all" if tier == "thorough" else "1/6 of the"} ordered triples (+ sampled quadruples in the thorough tier) + '
                        '16 two-batch histories on one network object + API-built request batches of 2-3; networks include a two-band (C+L) '
                        'line system; + a 4-site mesh with every ordered batch of 1-3 out of 9 requests of which 7 share their end points and differ in the include list (same nodes in both orders, LOOSE / STRICT); on P3 every ordered pair and history also under ggn_spectrally_separated with 3 computed channels')
    rep.cov['space_size'] = len(cases)
    rep.cov['exhaustive'] = not stats['budget_hit'] and len(results) == len(cases)
    rep.cov['rule'] = ('a case = one batch (or two successive batches) through the real planning() on a freshly designed network; '
                       'transitions = requests compared with their solo run (route, mode, per-channel GSNR/OSNR of both '
                       'directions within 1e-9 dB, non-spectrum blocking reason); network_to_json and amplifier settings must be '
                       'unchanged after every batch. Non-trivial: batch of >= 2 requests.')
    rep.assumptions += ['solo results are computed once per worker process on a fresh network and reused',
                        'N/M and spectrum blocking reasons are excluded (they may depend on history)']
    rep.require(rep.tags.get('saturating-request-in-batch', 0) >= 10 and rep.tags.get('mixed-outcomes', 0) >= 10 and
                rep.tags.get('api-batch', 0) >= 1, 'batches did not mix saturating / differently ending requests')
    rep.require(rep.tags.get('sim:ggn3', 0) >= 10 and rep.tags.get('net:P3_CL', 0) >= 10, 'GGN / multiband variants did not run')
    rep.require(len(rep._outcomes) >= 4, f'fewer than 4 outcome kinds in the menu: {sorted(rep._outcomes)}')
