"""C18 - input documents mean the same thing in legacy and YANG form.

Deviation-bounded enumeration of document "mutators" (optional structures and per-field value alphabets derived from the
declared precision) applied to a base document of each kind (topology, equipment, service, spectrum, sim-params), plus the
shipped example files.  Real legacy_to_yang / yang_to_legacy (libyang validation included) and the real loaders.
Oracle: idempotence of both conversions, L2Y(Y2L(Y)) == Y, d' == d under the declared-precision model (a pinned copy of
the declared fraction digits), same objects built from d and d', aliases report their own name.
"""
import copy
import itertools
import json
import math
import os

from mc import engine
from checks import common as c

with open(os.path.join(c.DATA, 'precision_dict_pinned.json')) as _f:
    PREC = json.load(_f)


# ---- base documents and mutators ---------------------------------------------------------------------------------------
def base_topology():
    f = lambda L, **k: c.fiber(L, **k)     # noqa
    rp = {s: {'type_variety': 'default', 'params': {'target_pch_out_db': -20.0,
                                                    'restrictions': {'preamp_variety_list': [], 'booster_variety_list': []}}}
          for s in 'ABCD'}
    topo = c.build_topology(['A', 'B', 'C', 'D'], [
        ('A', 'B', [c.edfa('std_low_gain', gain_target=14.0, delta_p=1.0, tilt_target=0.0, out_voa=1.0), f(80, con_in=0.5, con_out=0.5),
                    c.edfa('std_medium_gain', gain_target=20.0, delta_p=0.0, tilt_target=0.0, out_voa=0.0)],
         [f(80)]),
        ('B', 'C', [f(60)], [f(60), c.fused(1.0), f(20)]),
        # a second ROADM (C) with an operator-placed amplifier as a degree
        ('C', 'D', [c.edfa('std_low_gain'), f(50)], [f(50)])], roadm_params=rp)
    for e in topo['elements']:
        e['metadata'] = {'location': {'latitude': 1.0, 'longitude': 2.0, 'city': 'x', 'region': 'y'}}
    return topo


def el(topo, uid):
    return next(e for e in topo['elements'] if e['uid'] == uid)


def T(fn):
    return ('topology', fn)


def m_per_degree(kinds):
    def fn(d):
        p = el(d, 'roadm B')['params']
        vals = {'pch': ('per_degree_pch_out_db', -21.5), 'psd': ('per_degree_psd_out_mWperGHz', 3.125e-4),
                'psw': ('per_degree_psd_out_mWperSlotWidth', 2.0e-4)}
        degs = ['B>C:0:Fiber', 'B>A:0:Fiber', 'trx B']
        for k, deg in zip(kinds, degs):
            key, v = vals[k]
            p.setdefault(key, {})[deg] = v
    return fn


def m_per_degree_zero(d):
    # targets whose value is exactly zero: 0 dBm on one degree of roadm B, and on a degree of roadm A
    el(d, 'roadm B')['params']['per_degree_pch_out_db'] = {'B>C:0:Fiber': 0.0, 'B>A:0:Fiber': -21.5}
    el(d, 'roadm A')['params']['per_degree_pch_out_db'] = {'A>B:0:Edfa': 0}


def m_design_bands(d):
    el(d, 'roadm A')['params']['design_bands'] = [{'f_min': 191.3e12, 'f_max': 196.1e12, 'spacing': 50e9},
                                                  {'f_min': 186.6e12, 'f_max': 190.0e12, 'spacing': 75e9}]
    el(d, 'roadm A')['params']['per_degree_design_bands'] = {'A>B:0:Edfa': [{'f_min': 191.3e12, 'f_max': 196.1e12, 'spacing': 50e9}]}


def m_design_bands_two(d):
    # the same structures on two ROADMs of one document, with different contents (a converter must not carry anything over
    # from one element to the next)
    m_design_bands(d)
    el(d, 'roadm C')['params']['per_degree_design_bands'] = {'C>D:0:Edfa': [{'f_min': 191.4e12, 'f_max': 196.0e12, 'spacing': 75e9}]}


def m_per_degree_two_roadms(d):
    m_per_degree(['pch', 'psd'])(d)
    el(d, 'roadm C')['params']['per_degree_psd_out_mWperSlotWidth'] = {'C>B:0:Fiber': 1.5e-4}
    el(d, 'roadm A')['params']['per_degree_pch_out_db'] = {'A>B:0:Edfa': -19.25}


def m_two_tables(d):
    m_loss_table('desc')(d)
    el(d, 'B>A:0:Fiber')['params']['loss_coef'] = {'value': [0.25, 0.2, 0.21], 'frequency': [187e12, 193.4e12, 197e12]}
    el(d, 'B>A:0:Fiber')['params']['lumped_losses'] = [{'position': 10.0, 'loss': 0.3}]
    el(d, 'A>B:1:Fiber')['params']['lumped_losses'] = [{'position': 61.5, 'loss': 0.75}, {'position': 20.0, 'loss': 1.0}]


def m_loss_table(order):
    def fn(d):
        fr, val = [186e12, 191e12, 193.4e12, 198e12], [0.24, 0.21, 0.2, 0.2234567]
        if order == 'desc':
            fr, val = fr[::-1], val[::-1]
        elif order == 'shuffled':
            fr, val = [fr[2], fr[0], fr[3], fr[1]], [val[2], val[0], val[3], val[1]]
        el(d, 'B>C:0:Fiber')['params']['loss_coef'] = {'value': val, 'frequency': fr}
    return fn


def m_lumped(d):
    el(d, 'B>A:0:Fiber')['params']['lumped_losses'] = [{'position': 61.5, 'loss': 0.75}, {'position': 20.000001, 'loss': 1.0}]


def m_raman(d):
    e = el(d, 'C>B:0:Fiber')
    e['type'] = 'RamanFiber'
    e['params'].update({'con_in': 0.5, 'con_out': 0.5})
    e['operational'] = {'temperature': 283.15, 'raman_pumps': [
        {'power': 0.231135, 'frequency': 201e12, 'propagation_direction': 'counterprop'},
        {'power': 0.224403123, 'frequency': 205e12, 'propagation_direction': 'coprop'}]}


def m_value(uid, path, value):
    def fn(d):
        x = el(d, uid)
        for k in path[:-1]:
            x = x.setdefault(k, {})
        x[path[-1]] = value
    return fn


def m_nulls(d):
    for e in d['elements'][:3]:
        e['metadata']['location']['city'] = None
        e['metadata']['location']['region'] = None


def m_no_roadm_variety(d):
    el(d, 'roadm C').pop('type_variety', None)


def m_impairments(d):
    el(d, 'roadm B')['params']['per_degree_impairments'] = [{'from_degree': 'A>B:2:Edfa', 'to_degree': 'B>C:0:Fiber', 'impairment_id': 3}]


TOPO_MUT = {
    'per_degree_pch': m_per_degree(['pch']), 'per_degree_psd': m_per_degree(['psd']), 'per_degree_psw': m_per_degree(['psw']),
    'per_degree_mixed': m_per_degree(['pch', 'psd', 'psw']), 'per_degree_two': m_per_degree(['psw', 'pch']),
    'per_degree_interleaved': m_per_degree(['pch', 'psd', 'pch']), 'per_degree_zero': m_per_degree_zero,
    'design_bands': m_design_bands, 'design_bands_two_roadms': m_design_bands_two,
    'per_degree_two_roadms': m_per_degree_two_roadms, 'tables_and_lumped_on_two_fibres': m_two_tables, 'loss_table_asc': m_loss_table('asc'), 'loss_table_desc': m_loss_table('desc'),
    'loss_table_shuffled': m_loss_table('shuffled'), 'lumped_out_of_order': m_lumped, 'raman': m_raman, 'nulls': m_nulls,
    'roadm_no_variety': m_no_roadm_variety, 'per_degree_impairments': m_impairments,
    'delta_p_6digits': m_value('A>B:0:Edfa', ['operational', 'delta_p'], 1.234567),
    'delta_p_sci': m_value('A>B:0:Edfa', ['operational', 'delta_p'], 1e-06),
    'delta_p_int': m_value('A>B:0:Edfa', ['operational', 'delta_p'], 2),
    'delta_p_neg': m_value('A>B:0:Edfa', ['operational', 'delta_p'], -0.5),
    'delta_p_null': m_value('A>B:0:Edfa', ['operational', 'delta_p'], None),
    'gain_6digits': m_value('A>B:2:Edfa', ['operational', 'gain_target'], 20.123456),
    'tilt_neg': m_value('A>B:2:Edfa', ['operational', 'tilt_target'], -1.25),
    'voa_2digits': m_value('A>B:0:Edfa', ['operational', 'out_voa'], 1.25),
    'in_voa': m_value('A>B:2:Edfa', ['operational', 'in_voa'], 0.75),
    'length_6digits': m_value('A>B:1:Fiber', ['params', 'length'], 90.909091),
    'length_int': m_value('A>B:1:Fiber', ['params', 'length'], 90),
    'loss_coef_6digits': m_value('A>B:1:Fiber', ['params', 'loss_coef'], 0.212345),
    'att_in': m_value('A>B:1:Fiber', ['params', 'att_in'], 1.75),
    'con_null': m_value('B>C:0:Fiber', ['params', 'con_in'], None),
    'pmd_coef_sci': m_value('A>B:1:Fiber', ['params', 'pmd_coef'], 1.265e-15),
    'target_psd': lambda d: el(d, 'roadm C')['params'].update({'target_pch_out_db': None}) or el(d, 'roadm C')['params'].pop('target_pch_out_db') or el(d, 'roadm C')['params'].update({'target_psd_out_mWperGHz': 3.125e-4}),   # noqa
    'fused_loss': m_value('C>B:1:Fused', ['params', 'loss'], 0.25),
}


def base_equipment():
    eq = c.eqpt_json('test')
    return eq


def e_other_names(d):
    d['Edfa'][1]['other_name'] = ['alias_amp_1', 'alias_amp_2']
    t = d['Transceiver'][2]
    t['other_name'] = ['alias_trx_A', 'alias_trx_B']
    t['mode'][0]['other_name'] = ['alias mode a', 'alias mode b']


def e_multi_si_span(d):
    d['SI'].append(dict(d['SI'][0], type_variety='lband', f_min=186.3e12, f_max=190.1e12, power_range_db=[-1, 1, 0.5]))


def e_value(kind, idx, key, value):
    def fn(d):
        d[kind][idx][key] = value
    return fn


def e_penalties(d):
    d['Transceiver'][0]['mode'][0]['penalties'] = [{'chromatic_dispersion': 4e3, 'penalty_value': 0}, {'chromatic_dispersion': 18e3, 'penalty_value': 0.5},
                                                   {'pmd': 10, 'penalty_value': 0}, {'pmd': 30.5, 'penalty_value': 0.55},
                                                   {'pdl': 1.5, 'penalty_value': 0.5}]
    d['Transceiver'][0]['mode'][1]['equalization_offset_db'] = -1.2345


def e_roadm_imp(d):
    from checks import c06
    lib = c06.library(dict(lib_policy='pch', variety='imp'))
    r = copy.deepcopy(next(x for x in lib['Roadm'] if x['type_variety'] == 'imp'))
    for prof in r['roadm-path-impairments']:
        for k, lst in prof.items():
            if isinstance(lst, list):
                for item in lst:
                    item['roadm-pmd'] = 0        # the declared precision (8 fraction digits) cannot hold picoseconds
    r['pmd'] = 0
    d['Roadm'].append(dict({'type_variety': 'imp'}, **{k: v for k, v in r.items() if k != 'type_variety'}))


def e_raman_fiber(d):
    d['RamanFiber'] = [dict(d['Fiber'][0])]
    d['Fiber'].append({'type_variety': 'G2', 'dispersion': 1.672e-05, 'gamma': 0.00127, 'pmd_coef': 1.265e-15})


EQPT_MUT = {
    'other_names': e_other_names, 'multi_si_span': e_multi_si_span, 'penalties+offset': e_penalties, 'roadm_impairments': e_roadm_imp,
    'raman_fiber+gamma': e_raman_fiber,
    'p_max_2digits': e_value('Edfa', 1, 'p_max', 21.25), 'nf_min_2digits': e_value('Edfa', 1, 'nf_min', 6.25),
    'gain_int': e_value('Edfa', 2, 'gain_flatmax', 16), 'span_padding': e_value('Span', 0, 'padding', 10.5),
    'span_dpr': e_value('Span', 0, 'delta_power_range_db', [-2.5, 3, 0.5]), 'si_power': e_value('SI', 0, 'power_dbm', -1.25),
    'si_range': e_value('SI', 0, 'power_range_db', [-1, 1, 0.25]), 'si_margin': e_value('SI', 0, 'sys_margins', 2),
    'si_tx_power': e_value('SI', 0, 'tx_power_dbm', 1.5),
    'roadm_psd': lambda d: (d['Roadm'][0].pop('target_pch_out_db'), d['Roadm'][0].update({'target_psd_out_mWperGHz': 3.125e-4})),
    'roadm_psw': lambda d: (d['Roadm'][0].pop('target_pch_out_db'), d['Roadm'][0].update({'target_out_mWperSlotWidth': 2.0e-4})),
    'fiber_effective_area': e_value('Fiber', 0, 'effective_area', 7.25e-11),
    'span_voa': lambda d: d['Span'][0].update({'voa_margin': 1.5, 'voa_step': 0.25, 'power_slope': 0.35, 'span_loss_ref': 19.5}),
}


def base_service():
    from checks import reqgen as rg
    return rg.service([
        rg.request('1', 'trx A', 'trx C', include=[('roadm B', 'LOOSE'), ('roadm C', 'STRICT')], n=None, m=None),
        rg.request('2', 'trx A', 'trx B', mode=None, bandwidth=200e9),
        rg.request('3', 'trx C', 'trx A', bidir=True, bandwidth=200e9, n=-100, m=8)], [['1', '2']])


def s_route_out_of_order(d):
    objs = d['path-request'][0]['explicit-route-objects']['route-object-include-exclude']
    objs.reverse()


def s_slots(d):
    d['path-request'][2]['path-constraints']['te-bandwidth']['effective-freq-slot'] = [{'N': -100, 'M': 4}, {'N': None, 'M': None},
                                                                                      {'N': 50, 'M': None}]


def s_value(i, key, value):
    def fn(d):
        d['path-request'][i]['path-constraints']['te-bandwidth'][key] = value
    return fn


def s_two_groups(d):
    d['synchronization'].append({'synchronization-id': 's9', 'svec': {'relaxable': False, 'disjointness': 'node link',
                                                                      'request-id-number': ['3', '2']}})


SERV_MUT = {
    'route_out_of_order': s_route_out_of_order, 'slot_list': s_slots, 'two_groups': s_two_groups,
    'power_8digits': s_value(0, 'output-power', 0.00125893), 'power_sci': s_value(0, 'output-power', 1e-05),
    'power_null': s_value(0, 'output-power', None), 'spacing_half': s_value(1, 'spacing', 37.5e9),
    'nb_channel': s_value(0, 'max-nb-of-channel', 80), 'tx_power': s_value(2, 'tx_power', 0.00125),
    'bandwidth_dec': s_value(1, 'path_bandwidth', 150.5e9),
}

SPECTRUM_DOCS = {
    'two_partitions': {'spectrum': [
        {'f_min': 191.4e12, 'f_max': 193.1e12, 'baud_rate': 32e9, 'slot_width': 50e9, 'delta_pdb': 0, 'roll_off': 0.15, 'tx_osnr': 40,
         'label': 'mode_1'},
        {'f_min': 193.1625e12, 'f_max': 195e12, 'baud_rate': 64e9, 'slot_width': 75e9, 'roll_off': 0.15, 'tx_osnr': 40,
         'label': 'mode_2', 'delta_pdb': -1.25, 'tx_power_dbm': 1.5}]},
    'one': {'spectrum': [{'f_min': 191.4e12, 'f_max': 195.1e12, 'baud_rate': 32.5e9, 'slot_width': 37.5e9, 'roll_off': 0.15,
                          'tx_osnr': 35.25, 'delta_pdb': 1}]},
}
SIM_DOCS = {
    'raman_ggn': {'raman_params': {'flag': True, 'result_spatial_resolution': 10e3, 'solver_spatial_resolution': 50},
                  'nli_params': {'method': 'ggn_spectrally_separated', 'dispersion_tolerance': 1, 'phase_shift_tolerance': 0.1,
                                 'computed_channels': [1, 18, 37, 56, 75]}},
    'perturbative': {'raman_params': {'flag': True, 'method': 'perturbative', 'order': 4, 'result_spatial_resolution': 5000.5,
                                      'solver_spatial_resolution': 100},
                     'nli_params': {'method': 'ggn_approx', 'computed_number_of_channels': 5, 'dispersion_tolerance': 2.5,
                                    'phase_shift_tolerance': 0.25}},
    'nli_only': {'nli_params': {'method': 'gn_model_analytic'}},
}


# ---- oracle ---------------------------------------------------------------------------------------------------------------
def cmp_docs(a, b, key=None, path='', out=None, exact=False):
    """d vs d' under the declared-precision model; returns a list of differences.  Allowed normalisations (documented in the
    converter): a null city/region becomes "", a ROADM library entry without type_variety gets 'default', null values may be
    dropped or kept, ints may come back as floats."""
    out = [] if out is None else out
    if len(out) > 6:
        return out
    if isinstance(a, dict) and isinstance(b, dict):
        for k in sorted(set(a) | set(b)):
            if k not in a:
                if b[k] in (None, [], {}) or (k == 'type_variety' and b[k] == 'default'):
                    continue
                out.append(f'{path}/{k}: appears after the round trip ({b[k]!r})')
            elif k not in b:
                if a[k] in (None, [], {}):
                    continue
                out.append(f'{path}/{k}: lost in the round trip ({str(a[k])[:80]})')
            else:
                cmp_docs(a[k], b[k], k if k in PREC else key, f'{path}/{k}', out)
    elif isinstance(a, list) and isinstance(b, list):
        if len(a) != len(b):
            out.append(f'{path}: list of {len(a)} became list of {len(b)}')
        else:
            for i, (x, y) in enumerate(zip(a, b)):
                cmp_docs(x, y, key, f'{path}[{i}]', out)
    elif isinstance(a, bool) or isinstance(b, bool) or isinstance(a, str) or isinstance(b, str):
        if a != b and not (a is None and b == '' and key in ('city', 'region')):
            out.append(f'{path}: {a!r} became {b!r}')
    elif a is None or b is None:
        if a != b and not (a is None and b == '' and key in ('city', 'region')):
            out.append(f'{path}: {a!r} became {b!r}')
    elif isinstance(a, (int, float)) and isinstance(b, (int, float)):
        p = PREC.get(key, 2)
        if a == b or p < 0:
            ok = a == b
        else:
            # the value must come back rounded (not truncated) to the declared number of fraction digits
            q = float(f'{a:.{p}f}')
            ok = math.isclose(b, q, rel_tol=1e-12, abs_tol=10 ** -(p + 6))
        if not ok:
            out.append(f'{path}: {a!r} became {b!r} (declared fraction digits {p})')
    elif a != b:
        out.append(f'{path}: {a!r} became {b!r}')
    return out


def objs_equal(a, b, path='', out=None, depth=0):
    """attribute-wise comparison of loaded objects (equipment entries, requests)"""
    import numpy as np
    out = [] if out is None else out
    if len(out) > 4 or depth > 8:
        return out
    if isinstance(a, dict) and isinstance(b, dict):
        for k in sorted(set(a) | set(b), key=str):
            if k not in a or k not in b:
                out.append(f'{path}.{k}: on one side only')
            else:
                objs_equal(a[k], b[k], f'{path}.{k}', out, depth + 1)
    elif isinstance(a, (list, tuple)) and isinstance(b, (list, tuple)):
        if len(a) != len(b):
            out.append(f'{path}: length {len(a)} vs {len(b)}')
        else:
            for i, (x, y) in enumerate(zip(a, b)):
                objs_equal(x, y, f'{path}[{i}]', out, depth + 1)
    elif isinstance(a, np.ndarray) or isinstance(b, np.ndarray):
        if np.shape(a) != np.shape(b) or not np.allclose(a, b, rtol=1e-12, atol=0, equal_nan=True):
            out.append(f'{path}: arrays differ')
    elif isinstance(a, float) or isinstance(b, float):
        if not (a == b or (isinstance(a, (int, float)) and isinstance(b, (int, float)) and math.isclose(a, b, rel_tol=1e-12))):
            out.append(f'{path}: {a!r} vs {b!r}')
    elif hasattr(a, '__dict__') and hasattr(b, '__dict__') and type(a) is type(b):
        objs_equal(vars(a), vars(b), path, out, depth + 1)
    elif a != b:
        out.append(f'{path}: {str(a)[:60]} vs {str(b)[:60]}')
    return out


def permute_lists(x, how):
    """the same YANG document with the entries of every keyed list (list of objects) written in another order"""
    if isinstance(x, dict):
        return {k: permute_lists(v, how) for k, v in x.items()}
    if isinstance(x, list):
        y = [permute_lists(v, how) for v in x]
        if len(y) > 1 and all(isinstance(v, dict) for v in y):
            if how == 'reverse':
                y = y[::-1]
            elif how == 'rotate':
                y = y[1:] + y[:1]
            else:
                y = [y[1], y[0]] + y[2:]
        return y
    return x


def canon_lists(x):
    """order-insensitive form of a legacy document: every list of objects sorted by its canonical JSON text"""
    if isinstance(x, dict):
        if set(x) == {'value', 'frequency'} and isinstance(x['value'], list) and isinstance(x['frequency'], list) \
                and len(x['value']) == len(x['frequency']):
            # per-frequency table kept as two parallel arrays: the (frequency, value) pairs are the content
            pairs = sorted(zip(x['frequency'], x['value']))
            return {'frequency': [a for a, _ in pairs], 'value': [b for _, b in pairs]}
        return {k: canon_lists(v) for k, v in x.items()}
    if isinstance(x, list):
        y = [canon_lists(v) for v in x]
        if all(isinstance(v, dict) for v in y):
            y = sorted(y, key=lambda v: json.dumps(v, sort_keys=True, default=str))
        return y
    return x


def check_doc(kind, d, where, viol, tags):
    from gnpy.tools.convert_legacy_yang import legacy_to_yang, yang_to_legacy
    from gnpy.tools.yang_convert_utils import load_data

    def v(fp, what):
        viol.append(dict(fingerprint=fp, what=f'{where}: {what}'))
    d0 = copy.deepcopy(d)
    try:
        Y = legacy_to_yang(d)          # the caller's own document: it must come back untouched (compared with d0 below)
        load_data(json.dumps(Y))
    except Exception as exc:  # noqa
        v(f'{kind}:legacy-to-yang-failed:{type(exc).__name__}', str(exc)[:200])
        return None
    if d != d0:
        v(f'{kind}:conversion-mutates-input', 'legacy_to_yang modified its argument')
    try:
        Y2 = legacy_to_yang(copy.deepcopy(Y))
        d1 = yang_to_legacy(copy.deepcopy(Y))      # (yang_to_legacy works in place on its argument: not judged)
        d2 = yang_to_legacy(copy.deepcopy(d1))
        Y3 = legacy_to_yang(copy.deepcopy(d1))
    except Exception as exc:  # noqa
        v(f'{kind}:round-trip-raised:{type(exc).__name__}', str(exc)[:200])
        return None
    if Y2 != Y:
        v(f'{kind}:legacy-to-yang-not-idempotent', str(cmp_docs(Y, Y2))[:300])
    if d2 != d1:
        v(f'{kind}:yang-to-legacy-not-idempotent', str(cmp_docs(d1, d2))[:300])
    if Y3 != Y:
        v(f'{kind}:yang-of-converted-back-differs', str(cmp_docs(Y, Y3))[:300])
    diffs = cmp_docs(d, d1)
    if diffs:
        k = diffs[0].split(':')[0].split('/')[-1].split('[')[0]
        v(f'{kind}:value-or-structure-not-preserved:{k}', str(diffs[:3])[:400])
    # keyed YANG lists carry no order: the same YANG document with its list entries written in another order converts to the
    # same legacy content (compared up to the order of lists of objects)
    ref = canon_lists(d1)
    for how in ('reverse', 'rotate', 'swap'):
        Yp = permute_lists(Y, how)
        if Yp == Y:
            continue
        try:
            load_data(json.dumps(Yp))
            dp = yang_to_legacy(copy.deepcopy(Yp))
        except Exception as exc:  # noqa
            v(f'{kind}:yang-list-order-raised:{type(exc).__name__}', f'list entries in {how} order: {str(exc)[:200]}')
            break
        tags['yang-list-orders'] = tags.get('yang-list-orders', 0) + 1
        if canon_lists(dp) != ref:
            v(f'{kind}:yang-list-order-changes-meaning', f'list entries written in {how} order: '
              f'{str(cmp_docs(ref, canon_lists(dp), exact=True))[:400]}')
            break
    # identityref leaves may be written with their module name in front (RFC 7951): the meaning is the same
    if kind == 'topology':
        Yq, n = prefix_identityrefs(Y)
        if n:
            try:
                load_data(json.dumps(Yq))
                dq = yang_to_legacy(copy.deepcopy(Yq))
            except Exception as exc:  # noqa
                v(f'{kind}:qualified-identityref-raised:{type(exc).__name__}', f'{n} identityref values written with the '
                  f'module prefix: {str(exc)[:200]}')
                dq = None
            if dq is not None:
                tags['yang-qualified-identityrefs'] = tags.get('yang-qualified-identityrefs', 0) + 1
                if dq != d1:
                    v(f'{kind}:qualified-identityref-changes-meaning', f'{n} identityref values written with the module prefix: '
                      f'{str(cmp_docs(d1, dq, exact=True))[:400]}')
    tags[f'{kind}-docs'] = tags.get(f'{kind}-docs', 0) + 1
    return d1


IDENTITYREF_LEAVES = ('length_units', 'propagation_direction')


def prefix_identityrefs(doc, module='gnpy-network-topology'):
    """copy of a YANG topology document in which the identityref leaves other than `type` carry the module prefix"""
    n = 0

    def walk(x):
        nonlocal n
        if isinstance(x, dict):
            out = {}
            for k, val in x.items():
                if k.split(':')[-1] in IDENTITYREF_LEAVES and isinstance(val, str) and ':' not in val:
                    out[k] = f'{module}:{val}'
                    n += 1
                else:
                    out[k] = walk(val)
            return out
        if isinstance(x, list):
            return [walk(i) for i in x]
        return x
    return walk(doc), n


def run_case(case):
    from gnpy.tools.json_io import _equipment_from_json, requests_from_json, network_to_json, _spectrum_from_json
    from gnpy.tools.default_edfa_config import DEFAULT_EXTRA_CONFIG
    viol = []
    tags = {}
    kind = case['kind']
    where = f'{kind} document with {case.get("mut") or case.get("name")}'
    transitions = 1
    if kind == 'topology':
        d = base_topology()
        for m in case['mut']:
            TOPO_MUT[m](d)
        d1 = check_doc(kind, d, where, viol, tags)
        if d1 is not None and not viol and 'per_degree_impairments' not in case['mut']:
            eq = base_equipment()
            if 'raman' in case['mut']:
                e_raman_fiber(eq)
            if 'per_degree_impairments' in case['mut']:
                e_roadm_imp(eq)
                for dd in (d, d1):
                    el(dd, 'roadm B')['type_variety'] = 'imp'
            try:
                sim = {'raman_params': {'flag': True, 'result_spatial_resolution': 10e3, 'solver_spatial_resolution': 2e3}} \
                    if 'raman' in case['mut'] else None
                n0, _, _, _ = c.design(d, eq, sim=sim)
                n1, _, _, _ = c.design(d1, eq, sim=sim)
                from checks.c17 import diff_json, canon_export
                dd = diff_json(canon_export(network_to_json(n0)), canon_export(network_to_json(n1)), tol=1e-9)
                transitions += 2
                if dd:
                    viol.append(dict(fingerprint='topology:designs-differ-after-round-trip', what=f'{where}: {dd[:3]}'))
            except Exception as exc:  # noqa
                viol.append(dict(fingerprint=f'topology:load-raised:{type(exc).__name__}', what=f'{where}: {str(exc)[:200]}'))
            finally:
                c.set_sim_params({})
    elif kind == 'equipment':
        if case.get('name'):
            d = c.eqpt_json(case['name'])
        else:
            d = base_equipment()
            for m in case['mut']:
                EQPT_MUT[m](d)
        d1 = check_doc(kind, d, where, viol, tags)
        if d1 is not None:
            try:
                e0 = _equipment_from_json(copy.deepcopy(d), DEFAULT_EXTRA_CONFIG)
                e1 = _equipment_from_json(copy.deepcopy(d1), DEFAULT_EXTRA_CONFIG)
                transitions += 2
                dd = objs_equal({k: dict(v) for k, v in e0.items()}, {k: dict(v) for k, v in e1.items()})
                if dd:
                    viol.append(dict(fingerprint='equipment:libraries-differ-after-round-trip:' + dd[0].split('.')[1] if '.' in dd[0] else 'x',
                                     what=f'{where}: {dd[:3]}'))
                # aliases
                for typ in ('Edfa', 'Transceiver'):
                    for ent in d.get(typ, []):
                        if 'other_name' in ent:
                            names = ent['other_name'] + [ent['type_variety']]
                            tags['aliases'] = 1
                            ref = None
                            for nm in names:
                                o = e0[typ].get(nm)
                                if o is None:
                                    viol.append(dict(fingerprint=f'alias-missing:{typ}', what=f'{where}: {nm} not in the library'))
                                    continue
                                if getattr(o, 'type_variety', None) != nm:
                                    viol.append(dict(fingerprint=f'alias-reports-other-name:{typ}',
                                                     what=f'{where}: entry {nm!r} reports type_variety {getattr(o, "type_variety", None)!r}'))
                                body = {k: v for k, v in vars(o).items() if k != 'type_variety'}
                                if ref is None:
                                    ref = body
                                elif objs_equal(ref, body):
                                    viol.append(dict(fingerprint=f'alias-parameters-differ:{typ}', what=f'{where}: {nm}: '
                                                     f'{objs_equal(ref, body)[:2]}'))
                        for md in (ent.get('mode') or []) if typ == 'Transceiver' else []:
                            if isinstance(md, dict) and 'other_name' in md:
                                o = e0[typ][ent['type_variety']]
                                fmts = [x['format'] for x in o.mode]
                                for nm in md['other_name'] + [md['format']]:
                                    if fmts.count(nm) != 1:
                                        viol.append(dict(fingerprint='alias-mode-missing', what=f'{where}: mode {nm!r} occurs '
                                                         f'{fmts.count(nm)} times in {fmts}'))
                                same = [{k: v for k, v in x.items() if k != 'format'} for x in o.mode
                                        if x['format'] in md['other_name'] + [md['format']]]
                                if any(objs_equal(same[0], s) for s in same[1:]):
                                    viol.append(dict(fingerprint='alias-mode-parameters-differ', what=f'{where}'))
            except Exception as exc:  # noqa
                viol.append(dict(fingerprint=f'equipment:load-raised:{type(exc).__name__}', what=f'{where}: {str(exc)[:200]}'))
    elif kind == 'service':
        d = base_service()
        for m in case['mut']:
            SERV_MUT[m](d)
        d1 = check_doc(kind, d, where, viol, tags)
        if d1 is not None:
            try:
                equipment = c.make_equipment(base_equipment())
                r0 = requests_from_json(copy.deepcopy(d), equipment)
                r1 = requests_from_json(copy.deepcopy(d1), equipment)
                transitions += 2
                dd = objs_equal([vars(x) for x in r0], [vars(x) for x in r1])
                if dd:
                    viol.append(dict(fingerprint='service:requests-differ-after-round-trip', what=f'{where}: {dd[:3]}'))
            except Exception as exc:  # noqa
                viol.append(dict(fingerprint=f'service:load-raised:{type(exc).__name__}', what=f'{where}: {str(exc)[:200]}'))
    elif kind == 'spectrum':
        d = copy.deepcopy(SPECTRUM_DOCS[case['name']])
        d1 = check_doc(kind, d, where, viol, tags)
        if d1 is not None:
            s0 = _spectrum_from_json(copy.deepcopy(d)['spectrum'])
            s1 = _spectrum_from_json(copy.deepcopy(d1)['spectrum'])
            dd = objs_equal({k: vars(v) for k, v in s0.items()}, {k: vars(v) for k, v in s1.items()})
            if dd:
                viol.append(dict(fingerprint='spectrum:carriers-differ-after-round-trip', what=f'{where}: {dd[:3]}'))
    elif kind == 'sim':
        d = copy.deepcopy(SIM_DOCS[case['name']])
        check_doc(kind, d, where, viol, tags)
    for x in viol:
        x['case'] = case
    return {'violations': viol[:6], 'transitions': transitions, 'traces': 0 if viol else 1,
            'nontrivial': bool(case.get('mut')) or bool(case.get('name')), 'tags': tags,
            'outcomes': [kind], 'sample': case}


def main(rep, tier, seed):
    d = 2 if tier == 'quick' else 3
    cases = []
    for kind, muts in (('topology', TOPO_MUT), ('equipment', EQPT_MUT), ('service', SERV_MUT)):
        names = list(muts)
        for k in range(0, d + 1):
            for combo in itertools.combinations(names, k):
                if incompatible(combo):
                    continue
                cases.append({'kind': kind, 'mut': list(combo)})
    for name in ('test', 'eqpt_config.json', 'eqpt_config_multiband.json', 'eqpt_config_openroadm_ver5.json',
                 'eqpt_config_openroadm_ver4.json'):
        cases.append({'kind': 'equipment', 'name': name})
    for name in SPECTRUM_DOCS:
        cases.append({'kind': 'spectrum', 'name': name})
    for name in SIM_DOCS:
        cases.append({'kind': 'sim', 'name': name})
    results, stats = engine.run_pool('checks.c18', cases, horizon=300)
    rep.absorb(results)
    rep.cov['bound'] = (f'all combinations of <= {d} mutators out of {len(TOPO_MUT)} topology, {len(EQPT_MUT)} equipment and '
                        f'{len(SERV_MUT)} service mutators applied to a base document of each kind; 5 shipped equipment libraries; '
                        f'{len(SPECTRUM_DOCS)} spectrum and {len(SIM_DOCS)} simulation-parameter documents')
    rep.cov['space_size'] = len(cases)
    rep.cov['exhaustive'] = not stats['budget_hit'] and len(results) == len(cases)
    rep.cov['rule'] = ('a case = one legacy document: legacy_to_yang (libyang-validated), idempotence of both directions, '
                       'L2Y(Y2L(Y)) == Y, the converted-back document equals the original under the declared fraction digits '
                       '(pinned copy), the objects / designed network / requests / carriers built from both forms are equal, '
                       'aliases report their own name. Mutators: optional structures (per-degree targets of every policy and '
                       'mixed, design bands, per-frequency loss in 3 orders, lumped losses, Raman pumps, impairments, aliases, '
                       'several SI/Span entries, penalties, route objects out of order, N/M lists) and per-field values '
                       '(exactly representable at the declared precision, scientific notation, ints, negatives, nulls).')
    rep.assumptions += ['list keys (uid, type_variety) come first in generated documents (libyang\'s JSON parser requires it)',
                        'declared fraction digits are a pinned copy of gnpy/yang/precision_dict.py']
    for k in ('topology-docs', 'equipment-docs', 'service-docs', 'aliases'):
        rep.require(rep.tags.get(k, 0) >= 1, f'{k} never exercised')


def incompatible(combo):
    groups = [('per_degree_',), ('loss_table_',), ('delta_p_',), ('roadm_ps',), ('length_',), ('power_',),
              ('raman_fiber+gamma', 'fiber_effective_area')]
    for g in groups:
        if sum(1 for m in combo if any(m.startswith(p) for p in g)) > 1:
            return True
    return False
