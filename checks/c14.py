"""C14 - spectrum assignment never double-books a slot and honours what the user fixed.

Explicit-state BFS over request histories on a small world of real OMS/Bitmap objects, driven through the
real ``pth_assign_spectrum`` exactly as ``planning()`` calls it (one request at a time, path + reverse path).
Reference model: per OMS a set of occupied slot indices (union of accepted assignments) - see DESIGN.md C14.
A second part drives histories through ``planning()`` on a designed network to bind the seam.
"""
import copy

from mc import engine

GRID = 6.25e9
F0 = 193.1e12

# ---- world ---------------------------------------------------------------------------------------------
# OMS 0: X->Y   OMS 1: Y->X (reverse of 0)   OMS 2: Y->Z (UNUSABLE sub-band)   OMS 3: Z->Y (pre-occupied run)
N_MIN, N_MAX = -24, 23           # 48 slots; guard band 4 slots on each side
WORLDS = ['empty', 'preloaded_a', 'preloaded_b', 'tight', 'aligned', 'wide_guard']
# 'wide_guard': every map is declared with a 50 GHz guard band (8 slots) instead of the default 25 GHz
# 'aligned': the four maps are created with different extents and brought to one grid by align_grids (padding on the left,
# on the right, on both sides) before the first request

PATHS = [   # (forward oms ids, reverse oms ids)
    ([0], []),
    ([0], [1]),
    ([0, 2], []),
    ([2], [3]),
    ([0, 2], [3, 1]),
]

# request menu: dict(N=[..], M=[..], bw=number of 100G channels requested, sp=spacing in GHz, blocked=bool)
REQS = [
    dict(N=[None], M=[None], bw=1, sp=25),
    dict(N=[None], M=[None], bw=2, sp=25),
    dict(N=[None], M=[None], bw=3, sp=25),
    dict(N=[0], M=[None], bw=1, sp=25),
    dict(N=[-10], M=[None], bw=2, sp=25),
    dict(N=[None], M=[4], bw=1, sp=25),
    dict(N=[4], M=[2], bw=1, sp=25),
    dict(N=[-21], M=[2], bw=1, sp=25),           # inside the lower guard band
    dict(N=[40], M=[2], bw=1, sp=25),            # outside the map
    dict(N=[22], M=[None], bw=1, sp=25),         # upper guard band, M free
    dict(N=[None], M=[2], bw=2, sp=25),          # M too small for the bandwidth
    dict(N=[None, None], M=[2, None], bw=2, sp=25),
    dict(N=[-8, 8], M=[2, 2], bw=2, sp=25),
    dict(N=[-8, None], M=[None, 2], bw=2, sp=25),
    dict(N=[0, 12], M=[4, 2], bw=1, sp=25),      # second slot beyond need
    dict(N=[None], M=[None], bw=1, sp=37.5),
    dict(N=[None], M=[None], bw=1, sp=25, blocked=True),
    dict(N=[None], M=[None], bw=8, sp=25),       # 32 slots: fits only an empty map
    dict(N=[-12], M=[6], bw=2, sp=37.5),
    dict(N=[-19], M=[2], bw=1, sp=25),           # lowest slot exactly one grid step inside the lower guard band
    dict(N=[18], M=[3], bw=1, sp=25),            # highest slot exactly one grid step inside the upper guard band
    dict(N=[-18], M=[2], bw=1, sp=25),           # lowest slot exactly on the first usable index
    dict(N=[18], M=[2], bw=1, sp=25),            # highest slot exactly on the last usable index
]
QUICK_REQS = [0, 1, 3, 5, 6, 8, 10, 11, 12, 13, 14, 16, 17, 19, 20]
DOCUMENTED_REASONS = {'NO_SPECTRUM', 'NOT_ENOUGH_RESERVED_SPECTRUM'}


_CH = {'FREE': '1', 'OCCUPIED': '0', 'UNUSABLE': 'u'}


class El:
    """minimal line element: pth_assign_spectrum reads only oms_id of non-ROADM, non-transceiver elements"""
    def __init__(self, oms_id):
        self.oms_id = oms_id
        self.uid = f'el{oms_id}'


def make_world(name):
    from gnpy.topology.spectrum_assignment import OMS, BitmapValue
    f_min = F0 + N_MIN * GRID
    f_max = F0 + N_MAX * GRID
    oms_list = []
    for i in range(4):
        oms = OMS(oms_id=i, el_id_list=[f'r{i}a', f'el{i}', f'r{i}b'], el_list=[])
        bitmap = [BitmapValue.FREE] * (N_MAX - N_MIN + 1)
        if i == 2:
            for n in range(14, N_MAX + 1):
                bitmap[n - N_MIN] = BitmapValue.UNUSABLE
        lo, hi = {1: (6, 0), 2: (0, 4), 3: (3, 2)}.get(i, (0, 0)) if name == 'aligned' else (0, 0)
        own = bitmap[lo:len(bitmap) - hi]
        # a shorter map keeps its own guard band unusable (as create_oms_bitmap does for the part of the network range that an
        # OMS does not carry): after the alignment every map then has the same usable limits as the aggregate
        if lo:
            own[:4] = [BitmapValue.UNUSABLE] * 4
        if hi:
            own[-4:] = [BitmapValue.UNUSABLE] * 4
        kw = {'guardband': 50e9} if name == 'wide_guard' else {}
        oms.update_spectrum(f_min + lo * GRID, f_max - hi * GRID, existing_spectrum=own, **kw)
        oms_list.append(oms)
    if name == 'aligned':
        from gnpy.topology.spectrum_assignment import align_grids
        # a first service is placed before the alignment (as an operator who loads existing services, then aligns)
        oms_list[1].assign_spectrum(10, 2)
        oms_list[0].assign_spectrum(10, 2)
        align_grids(oms_list)
    pre = []
    if name == 'preloaded_a':
        pre = [(3, -16, 2), (3, 10, 2), (0, -4, 2), (1, -4, 2)]
    elif name == 'preloaded_b':
        pre = [(0, -18, 2), (2, -18, 2), (0, 6, 4), (1, 6, 4), (2, 6, 4), (3, 6, 4)]
    elif name == 'tight':
        # leaves free runs of 4,6,8 slots on OMS 0 so first fit must skip
        pre = [(0, -14, 2), (0, -7, 1), (0, 0, 2), (0, 12, 2)]
    for o, n, m in pre:
        oms_list[o].assign_spectrum(n, m)
    assert oms_list[0].spectrum_bitmap.n_min == N_MIN and oms_list[0].spectrum_bitmap.n_max == N_MAX
    return oms_list


def make_request(idx, rid):
    from gnpy.topology.request import PathRequest
    r = REQS[idx]
    rq = PathRequest(request_id=str(rid), source='a', destination='b', trx_type='t', trx_mode='m',
                     bit_rate=100e9, spacing=r['sp'] * 1e9, path_bandwidth=r['bw'] * 100e9,
                     effective_freq_slot=[{'N': n, 'M': m} for n, m in zip(r['N'], r['M'])])
    if r.get('blocked'):
        rq.blocking_reason = 'NO_PATH'
    return rq


class State:
    def __init__(self, world):
        self.oms_list = make_world(world)
        self.accepted = []       # (req id, path idx, [(n, m)...])
        self.error = None


def snapshot(oms_list):
    return [tuple(_CH[b.name] for b in o.spectrum_bitmap.bitmap) for o in oms_list]


def apply_event(state, ev, rid):
    from gnpy.topology.spectrum_assignment import pth_assign_spectrum
    p_idx, r_idx = ev
    fwd, rev = PATHS[p_idx]
    pth = [El(i) for i in fwd]
    rpth = [El(i) for i in rev]
    rq = make_request(r_idx, rid)
    pth_assign_spectrum([pth], [rq], state.oms_list, [rpth])
    return rq


def build(history):
    world, evs = history[0], history[1:]
    st = State(world)
    st.last_rq = None
    for k, ev in enumerate(evs):
        try:
            rq = apply_event(st, ev, k)
        except Exception as exc:  # noqa  (recorded; judged by step_check on the last event)
            st.error = exc
            st.last_rq = None
            continue
        st.error = None
        st.last_rq = rq
        if rq.N is not None and not hasattr(rq, 'blocking_reason'):
            st.accepted.append((k, ev[0], list(zip(rq.N, rq.M))))
    return st


def canon(st):
    return (tuple(snapshot(st.oms_list)),)


def events_for(menu):
    def events(_state):
        return [[p, r] for p in range(len(PATHS)) for r in menu]
    return events


def model_occupancy(st):
    """set model: per OMS the set of slots occupied by accepted assignments"""
    occ = [set() for _ in st.oms_list]
    for _rid, p_idx, nm in st.accepted:
        fwd, rev = PATHS[p_idx]
        for o in set(fwd + rev):
            for n, m in nm:
                occ[o] |= set(range(n - m, n + m))
    return occ


def initial_occupancy(world):
    return snapshot(make_world(world))


_INIT = {}


def first_fit(prev, before, path_oms, m):
    """lowest centre n such that [n-m, n+m-1] is FREE and inside the guard-band limits on every oms of the path"""
    for n in range(N_MIN, N_MAX + 1):
        ok = True
        for o in path_oms:
            bm = prev.oms_list[o].spectrum_bitmap
            if n - m < bm.freq_index_min or n + m - 1 > bm.freq_index_max:
                ok = False
                break
            if n - m < N_MIN or n + m - 1 > N_MAX or any(before[o][s - N_MIN] != '1' for s in range(n - m, n + m)):
                ok = False
                break
        if ok:
            return n
    return None


def step_check(hist, ev, prev, nxt):
    from math import ceil
    world = hist[0]
    if world not in _INIT:
        _INIT[world] = initial_occupancy(world)
    init = _INIT[world]
    p_idx, r_idx = ev
    spec = REQS[r_idx]
    fwd, rev = PATHS[p_idx]
    path_oms = sorted(set(fwd + rev))
    before = snapshot(prev.oms_list)
    after = snapshot(nxt.oms_list)
    out = []

    def viol(fp, what, **kw):
        out.append(dict(fingerprint=fp, what=what, observed=kw,
                        case={'kind': 'history', 'history': hist + [ev]}))

    if nxt.error is not None:
        exc = nxt.error
        n_out = [n for n in spec['N'] if n is not None and not (N_MIN <= n <= N_MAX)]
        cls = 'N-outside-map' if n_out else 'other'
        viol(f'exception:{type(exc).__name__}:{cls}',
             f'pth_assign_spectrum raised {type(exc).__name__}: {exc} for request N={spec["N"]} M={spec["M"]} '
             f'(a user-fixed value must be used as given or the request blocked)')
        if before != after:
            viol('state-changed-by-failed-call', 'bitmaps changed by a call that raised')
        return out
    rq = nxt.last_rq
    blocked = hasattr(rq, 'blocking_reason')
    nb_wl = ceil(spec['bw'] * 100e9 / 100e9)
    m_ch = ceil(spec['sp'] * 1e9 / 12.5e9)
    required_m = m_ch * nb_wl
    if blocked:
        if rq.N is not None or rq.M is not None:
            viol('blocked-with-labels', f'blocked request keeps N={rq.N} M={rq.M}')
        if not spec.get('blocked') and rq.blocking_reason not in DOCUMENTED_REASONS:
            viol('undocumented-reason', f'blocking reason {rq.blocking_reason}')
        if before != after:
            changed = [i for i in range(len(before)) if before[i] != after[i]]
            aliased = len(path_oms) == 1
            viol('blocked-request-changed-bitmap:' + ('single-oms-path' if aliased else 'multi-oms-path'),
                 f'blocked request ({rq.blocking_reason}) N={spec["N"]} M={spec["M"]} bw={spec["bw"]} on path '
                 f'oms {path_oms} changed the spectrum state of oms {changed}', changed=changed)
        if (not spec.get('blocked') and len(spec['N']) == 1 and spec['N'][0] is None
                and (spec['M'][0] is None or spec['M'][0] // m_ch >= nb_wl)):
            m = spec['M'][0] if spec['M'][0] is not None else required_m
            best = first_fit(prev, before, path_oms, m)
            if best is not None:
                viol('blocked-but-feasible', f'free request (M={m}) blocked with {rq.blocking_reason} although '
                     f'centre {best} is free on all oms {path_oms}')
        return out
    # accepted
    nm = list(zip(rq.N, rq.M))
    if any(n is None or m is None for n, m in nm) or not nm:
        viol('accepted-without-labels', f'accepted request has N={rq.N} M={rq.M}')
        return out
    ranges = [set(range(n - m, n + m)) for n, m in nm]
    for i in range(len(ranges)):
        for j in range(i + 1, len(ranges)):
            if ranges[i] & ranges[j]:
                viol('self-overlap', f'request slots overlap each other: {nm}')
    allslots = set().union(*ranges)
    for o in path_oms:
        bm = prev.oms_list[o].spectrum_bitmap
        for s in sorted(allslots):
            if not (N_MIN <= s <= N_MAX) or before[o][s - N_MIN] != '1':
                viol('double-booking', f'slot {s} given to request on oms {o} was not FREE (N,M={nm})',
                     oms=o, slot=s)
                break
        for n, m in nm:
            if n - m < bm.freq_index_min or n + m - 1 > bm.freq_index_max:
                viol('guard-band', f'assignment {(n, m)} outside guard-band limits '
                     f'[{bm.freq_index_min},{bm.freq_index_max}] of oms {o}')
    if sum(m for _, m in nm) < required_m:
        viol('not-enough-slots', f'accepted with sum(M)={sum(m for _, m in nm)} < required {required_m}')
    if all(m is not None for m in spec['M']) and sum(m // m_ch for m in spec['M']) < nb_wl:
        viol('not-enough-channels', f'user M={spec["M"]} carries fewer than {nb_wl} channels but was accepted')
    # user-fixed values used verbatim
    fixed_pairs = [(n, m) for n, m in zip(spec['N'], spec['M']) if n is not None and m is not None]
    for fp_ in fixed_pairs:
        if fp_ not in nm:
            viol('fixed-pair-not-used', f'user-fixed (N,M)={fp_} not in accepted labels {nm}')
    for n, m in zip(spec['N'], spec['M']):
        if n is not None and m is None and n not in [x for x, _ in nm] and len(nm) == len(spec['N']):
            viol('fixed-N-not-used', f'user-fixed N={n} not in accepted labels {nm}')
        if m is not None and n is None and m not in [y for _, y in nm]:
            viol('fixed-M-not-used', f'user-fixed M={m} not in accepted labels {nm}')
    if len(nm) > len(spec['N']):
        viol('extra-labels', f'more labels than requested: {nm}')
    # first fit for a single free-centre request
    if len(spec['N']) == 1 and spec['N'][0] is None:
        m = spec['M'][0] if spec['M'][0] is not None else required_m
        best = first_fit(prev, before, path_oms, m)
        if best is None:
            viol('accepted-but-infeasible', f'model finds no feasible centre for M={m} but got {nm}')
        elif nm[0] != (best, m):
            viol('not-first-fit', f'first fit expects {(best, m)}, got {nm[0]}')
    # state update = exactly the accepted slots on exactly the path's OMS
    for o in range(len(before)):
        exp = list(before[o])
        if o in path_oms:
            for s in allslots:
                if N_MIN <= s <= N_MAX:
                    exp[s - N_MIN] = '0'
        if tuple(exp) != after[o]:
            viol('bitmap-update-mismatch', f'oms {o}: bitmap after accepted request differs from model '
                 f'(path oms {path_oms}, labels {nm})')
    # global invariant: occupancy == initial + union of accepted
    occ = model_occupancy(nxt)
    for o in range(len(after)):
        exp = list(init[o])
        for s in occ[o]:
            if N_MIN <= s <= N_MAX:
                exp[s - N_MIN] = '0'
        if tuple(exp) != after[o]:
            viol('occupancy-not-union', f'oms {o}: recorded occupancy is not the union of accepted assignments')
    return out


# ---- case runner ---------------------------------------------------------------------------------------
def run_case(case):
    if case['kind'] == 'bfs':
        menu = case['menu']
        res = engine.bfs([[case['world']] + case['prefix']], build, events_for(menu), canon, step_check,
                         depth=case['depth'])
        outcomes = set()
        # classify outcome kinds along the way cheaply: re-run the one-step from the start state
        st0 = build([case['world']] + case['prefix'])
        nontrivial = bool(st0.accepted)
        return {'states': res['states'], 'transitions': res['transitions'], 'traces': res['transitions'] -
                len(res['violations']), 'violations': res['violations'], 'evaluations': res['transitions'],
                'nontrivial': nontrivial, 'outcomes': list(outcomes),
                'sample': {'world': case['world'], 'prefix': case['prefix'], 'depth': case['depth'],
                           'states': res['states'], 'transitions': res['transitions']}}
    if case['kind'] == 'history':
        h = case['history']
        prev, nxt = build(h[:-1]), build(h)
        return {'violations': step_check(h[:-1], h[-1], prev, nxt), 'transitions': 1}
    if case['kind'] == 'planning':
        return run_planning_case(case)
    if case['kind'] == 'outcomes':
        # one pass over all depth-2 histories of a world to classify outcome kinds (vacuity guard)
        kinds = {}
        menu = case['menu']
        nontriv = set()
        for e1 in events_for(menu)(None):
            for e2 in events_for(menu)(None):
                st = build([case['world'], e1, e2])
                rq = st.last_rq
                if rq is None:
                    k = 'exception'
                elif hasattr(rq, 'blocking_reason'):
                    k = 'blocked:' + rq.blocking_reason
                else:
                    k = 'accepted'
                kinds[k] = kinds.get(k, 0) + 1
                if st.accepted and k.startswith('blocked') and set(sum(PATHS[e1[0]], [])) & set(sum(PATHS[e2[0]], [])):
                    nontriv.add(engine.digest([case['world'], e1, e2]))
        return {'tags': kinds, 'outcomes': list(kinds), 'nontrivial_keys': list(nontriv), 'evaluations': 0,
                'states': 0}
    raise ValueError(case)


def main(rep, tier, seed):
    full = list(range(len(REQS)))
    if tier == 'quick':
        plans = [(3, QUICK_REQS, sorted({WORLDS[seed % 4], WORLDS[(seed + 1) % 4], 'aligned', 'wide_guard'}))]
    else:
        plans = [(3, full, WORLDS), (4, QUICK_REQS[:9], WORLDS)]
    cases = []
    space = 0
    for depth, menu, worlds in plans:
        ev_menu = events_for(menu)(None)
        for w in worlds:
            for e in ev_menu:
                cases.append({'kind': 'bfs', 'world': w, 'prefix': [e], 'depth': depth - 1, 'menu': menu})
            # depth-1 transitions from the initial world itself, full menu
            cases.append({'kind': 'bfs', 'world': w, 'prefix': [], 'depth': 1, 'menu': full})
            cases.append({'kind': 'outcomes', 'world': w, 'menu': menu})
        space += len(worlds) * sum(len(ev_menu) ** k for k in range(1, depth + 1))
    import itertools
    names = list(PLAN_MENU)
    for k in (1, 2, 3):
        for b in itertools.permutations(names, k):
            if k == 3 and tier == 'quick' and (names.index(b[0]) + names.index(b[1]) + names.index(b[2]) + seed) % 5:
                continue
            cases.append({'kind': 'planning', 'batch': list(b)})
    results, stats = engine.run_pool('checks.c14', cases, horizon=3000, chunksize=1)
    rep.absorb(results)
    rep.cov['bound'] = '; '.join(f'history depth {d} over {len(m)} request shapes x {len(PATHS)} paths on {len(w)} worlds'
                                 for d, m, w in plans)
    rep.cov['space_size'] = space
    rep.cov['exhaustive'] = not stats['budget_hit']
    rep.cov['rule'] = (
        'BFS over all request histories up to the stated depth from a menu of request shapes x paths on small worlds '
        '(4 real OMS objects, 48-slot bitmaps, guard band 4 slots, one UNUSABLE sub-band, pre-occupied regions); every '
        'transition is one real pth_assign_spectrum call compared with the set model. states = distinct tuples of '
        'bitmaps per (world, first event) subtree; space_size = number of histories covered (before state merging); '
        'a history is non-trivial when it contains an accepted request followed by a blocked request sharing an OMS. '
        'Seam binding: every ordered batch of 1-2 (and a fifth / all of the 3-) requests from an 11-entry menu through the real '
        'planning() on a designed 3-site network, same set model on the returned OMS list.')
    rep.assumptions += [
        'path elements are minimal objects carrying oms_id (the only attribute pth_assign_spectrum reads)',
        'guard-band limits are read from each real Bitmap (freq_index_min/max)',
        'bit_rate 100 Gbit/s, spacings 25 / 37.5 GHz, grid 6.25 GHz']
    kinds = {k for k in rep.tags}
    rep.require(len(kinds) >= 3, f'only outcome kinds {sorted(kinds)} observed (need accepted + 2 blocking kinds)')
    rep.require(len(rep._nontrivial) >= 4, 'fewer than 4 histories with an accepted then a blocked request on a shared OMS')


# ---- seam binding: ordered request batches through planning() on a designed network -----------------------------------------
PLAN_MENU = {
    'free1': dict(src='A', dst='C', bw=100, slots=None),
    'free3': dict(src='A', dst='C', bw=300, slots=None),
    'free_ab': dict(src='A', dst='B', bw=200, slots=None),
    'bidir_ca': dict(src='C', dst='A', bw=100, slots=None, bidir=True),
    'fixed_n': dict(src='A', dst='B', bw=100, slots=[{'N': -200, 'M': None}]),
    'fixed_nm': dict(src='B', dst='C', bw=200, slots=[{'N': -200, 'M': 8}]),
    'fixed_nm_same': dict(src='A', dst='C', bw=100, slots=[{'N': -200, 'M': 4}]),
    'edge_low': dict(src='A', dst='C', bw=100, slots=[{'N': -287, 'M': 4}]),
    'outside': dict(src='A', dst='C', bw=100, slots=[{'N': 600, 'M': 4}]),
    'two_slots': dict(src='C', dst='B', bw=200, slots=[{'N': -260, 'M': 4}, {'N': None, 'M': None}]),
    'huge': dict(src='A', dst='B', bw=9000, slots=None),
}


def run_planning_case(case):
    import copy
    from checks import common as c
    from checks import reqgen as rg
    from gnpy.tools.worker_utils import planning
    viol = []
    topo = c.build_topology(['A', 'B', 'C'], [('A', 'B', [c.fiber(80)], [c.fiber(80)]), ('B', 'C', [c.fiber(60)], [c.fiber(60)])])
    net, equipment, _, _ = c.design(topo, c.eqpt_json('test'))
    reqs = []
    for k, name in enumerate(case['batch']):
        m = PLAN_MENU[name]
        reqs.append(rg.request(f'{k}{name}', f'trx {m["src"]}', f'trx {m["dst"]}', trx_type='Voyager', mode='mode 1',
                               bandwidth=m['bw'] * 1e9, bidir=m.get('bidir', False), slots=copy.deepcopy(m['slots'])))
    where = f'planning() batch {case["batch"]}'
    try:
        oms_list, ppaths, rpaths, rqs, dsjn, result = planning(net, equipment, rg.service(reqs))
    except Exception as exc:  # noqa
        return {'violations': [dict(fingerprint=f'planning-raised:{type(exc).__name__}', what=f'{where}: {str(exc)[:200]}', case=case)],
                'transitions': 1}
    # model
    occ = {o.oms_id: set() for o in oms_list}
    tags = {}
    for rq, pp, rp in zip(rqs, ppaths, rpaths):
        reason = getattr(rq, 'blocking_reason', None)
        if reason is not None:
            if rq.N is not None or rq.M is not None:
                viol.append(dict(fingerprint='blocked-with-labels', what=f'{where}: {rq.request_id} blocked ({reason}) keeps N/M'))
            tags['plan:' + reason] = 1
            continue
        tags['plan:accepted'] = 1
        oms_ids = {e.oms_id for e in pp if hasattr(e, 'oms_id')}
        # planning() books the opposite direction too (reversed path passed to pth_assign_spectrum for every request)
        oms_ids |= {oms_list[o].reversed_oms.oms_id for o in list(oms_ids) if oms_list[o].reversed_oms is not None}
        nm = list(zip(rq.N, rq.M))
        slots = set()
        for n, m in nm:
            r = set(range(n - m, n + m))
            if slots & r:
                viol.append(dict(fingerprint='self-overlap', what=f'{where}: {rq.request_id} labels {nm}'))
            slots |= r
        nb_wl = -(-int(rq.path_bandwidth) // int(rq.bit_rate))
        if sum(m for _, m in nm) < nb_wl * 4:
            viol.append(dict(fingerprint='not-enough-slots', what=f'{where}: {rq.request_id} got {nm} for {nb_wl} channels'))
        for o in oms_ids:
            bm = oms_list[o].spectrum_bitmap
            if slots & occ[o]:
                viol.append(dict(fingerprint='double-booking', what=f'{where}: {rq.request_id} labels {nm} overlap earlier '
                                 f'assignments on oms {o}: {sorted(slots & occ[o])[:4]}'))
            if min(slots) < bm.freq_index_min or max(slots) > bm.freq_index_max:
                viol.append(dict(fingerprint='guard-band', what=f'{where}: {rq.request_id} labels {nm} outside '
                                 f'[{bm.freq_index_min},{bm.freq_index_max}] of oms {o}'))
            occ[o] |= slots
    for o in oms_list:
        bm = o.spectrum_bitmap
        got = {n for n, b in zip(bm.freq_index, bm.bitmap) if b.name == 'OCCUPIED'}
        if got != occ[o.oms_id]:
            viol.append(dict(fingerprint='occupancy-not-union', what=f'{where}: oms {o.oms_id} ({o.el_id_list[0]}->{o.el_id_list[-1]}) '
                             f'records {len(got)} occupied slots, accepted assignments cover {len(occ[o.oms_id])}'))
    for v in viol:
        v['case'] = case
    return {'violations': viol[:6], 'transitions': len(rqs), 'traces': 0 if viol else 1, 'states': 1,
            'nontrivial': len(case['batch']) > 1, 'tags': tags, 'outcomes': [], 'sample': case}
