"""C17 - designing is repeatable: export, reload and redesign changes nothing; SimParams untouched.

Deviation-bounded enumeration over (site graph, link chains, Span settings, power/gain mode, library, simulation
parameters in force); histories of k = 1..3 export -> json dump/load -> network_from_json -> designed_network rounds on
the real code; differential oracle (round r+1 export == round r export; second design of the same input == first;
propagation on the reloaded design == propagation on the original; SimParams JSON identical before/after).
"""
import copy
import json
import math

from mc import engine
from checks import common as c
from checks import topogen as tg

CHAINS = ['F80', 'F200', 'F460', 'F1000', 'F80_F60', 'F40_U_F30', 'U_F60', 'F80_E_F70', 'Efull_F100_Efull', 'Etype_F100_Egain',
          'Evoa_F90_Edp', 'F200att', 'F20att', 'F100lumped', 'F80perfreq', 'R80_E', 'F80_R80', 'R30_U_F10', 'F0.05', 'Evoa_F100', 'Evoa_F70_F70', 'F200pmd']
SIMS = {
    'default': {},
    'raman_p2': {'raman_params': {'flag': True, 'method': 'perturbative', 'order': 2, 'result_spatial_resolution': 10e3,
                                  'solver_spatial_resolution': 1e3}},
    'raman_p4': {'raman_params': {'flag': True, 'method': 'perturbative', 'order': 4, 'result_spatial_resolution': 5e3,
                                  'solver_spatial_resolution': 2e3}},
    'raman_num': {'raman_params': {'flag': True, 'method': 'numerical', 'result_spatial_resolution': 10e3,
                                   'solver_spatial_resolution': 500.0}},
    'ggn_approx_n': {'raman_params': {'flag': True, 'method': 'perturbative', 'order': 1, 'result_spatial_resolution': 20e3,
                                      'solver_spatial_resolution': 4e3},
                     'nli_params': {'method': 'ggn_approx', 'computed_number_of_channels': 5, 'dispersion_tolerance': 3,
                                    'phase_shift_tolerance': 0.3}},
    'ggn_approx': {'raman_params': {'flag': True, 'result_spatial_resolution': 10e3, 'solver_spatial_resolution': 1e3},
                   'nli_params': {'method': 'ggn_approx', 'computed_channels': [1, 20, 40], 'dispersion_tolerance': 2,
                                  'phase_shift_tolerance': 0.2}},
}
SPACE = dict({'graph': ['P2', 'P3', 'TRI'], 'chain': CHAINS, 'chain_rev': ['F80', 'F200', 'F40_U_F30', 'Evoa_F90_Edp'],
              'eq': ['test', 'example'], 'sim': list(SIMS), 'voa_auto': [0, 1], 'dpr': [[0, 0, 0.5], [-2, 3, 0.5], [-1, 1, 0.1]],
              'rounds': [2, 1, 3],
              # ROADM settings given by the operator: node-level equalisation policy, per-degree targets of each kind (on
              # every degree that starts with an operator-placed amplifier), amplifier restrictions
              'roadm': ['plain', 'node_psd', 'node_psw', 'deg_pch', 'deg_psd', 'deg_psw', 'restrict', 'node_psd+deg_psw', 'node_psw+deg_pch',
                        'node_psd+deg_pch']}, **tg.SPAN_SPACE)
E_FIRST = ('Efull_F100_Efull', 'Etype_F100_Egain', 'Evoa_F90_Edp', 'Evoa_F100', 'Evoa_F70_F70')


def space_ok(x):
    # a per-degree target needs a degree that exists in the input document (an operator-placed first amplifier)
    return tg.consistent(x) and ('deg' not in x['roadm'] or x['chain'] in E_FIRST or x['chain_rev'] in E_FIRST)


def chain(kind):
    if kind == 'F1000':
        return [c.fiber(1000)]
    if kind == 'F200pmd':       # a fibre that auto-design splits, with its own PMD coefficient
        return [c.fiber(200, pmd_coef=4.0e-15)]
    return tg.chain(kind)


def topology(case):
    sites, links = tg.GRAPHS[case['graph']]
    ls = []
    for k, (a, b) in enumerate(links):
        if k == 0:
            fwd, rev = chain(case['chain']), chain(case['chain_rev'])
        else:
            fwd, rev = chain(['F80', 'F80_E_F70', 'F40_U_F30'][k % 3]), chain(['F80', 'F120'][k % 2])
        ls.append((a, b, fwd, rev))
    return c.build_topology(sites, ls, roadm_params=roadm_settings(case.get('roadm', 'plain'), sites, ls))


def roadm_settings(kind, sites, ls):
    if kind == 'plain':
        return None
    out = {}
    for s in sites:
        # degrees of this site that the input document names: chains that start with an amplifier
        degs = [f'{x}>{y}:0:Edfa' for a, b, fwd, rev in ls for x, y, ch in ((a, b, fwd), (b, a, rev))
                if x == s and ch and ch[0]['type'] == 'Edfa']
        p = {}
        if '+' in kind:
            # node-level policy of one kind and a per-degree target of another kind on the degrees the document names
            nk, dk = kind.split('+')
            p = {'node_psd': {'target_psd_out_mWperGHz': 2.5e-4}, 'node_psw': {'target_out_mWperSlotWidth': 1.6e-4}}[nk]
            if degs:
                key, val = {'deg_pch': ('per_degree_pch_out_db', -18.5), 'deg_psd': ('per_degree_psd_out_mWperGHz', 2.0e-4),
                            'deg_psw': ('per_degree_psd_out_mWperSlotWidth', 1.3e-4)}[dk]
                p = dict(p, **{key: {d: val for d in degs}})
        elif kind == 'node_psd':
            p = {'target_psd_out_mWperGHz': 2.5e-4}
        elif kind == 'node_psw':
            p = {'target_out_mWperSlotWidth': 1.6e-4}
        elif kind == 'restrict':
            p = {'restrictions': {'preamp_variety_list': ['std_low_gain', 'std_medium_gain'],
                                  'booster_variety_list': ['std_medium_gain']}}
        elif degs:
            key, val = {'deg_pch': ('per_degree_pch_out_db', -18.5), 'deg_psd': ('per_degree_psd_out_mWperGHz', 2.0e-4),
                        'deg_psw': ('per_degree_psd_out_mWperSlotWidth', 1.3e-4)}[kind]
            p = {key: {d: val for d in degs}}
        if p:
            out[s] = {'params': p}
    return out or None


def sim_json():
    """the process-wide simulation parameters, attribute by attribute (not through their own to_json)"""
    from gnpy.core.parameters import SimParams
    sp = SimParams()
    return json.dumps({'raman': {k: v for k, v in vars(sp.raman_params).items()},
                       'nli': {k: v for k, v in vars(sp.nli_params).items()}}, sort_keys=True, default=str)


def diff_json(a, b, path='', tol=2e-6, out=None):
    """differences between two JSON trees; numbers equal within tol (the export rounds to 6 decimals)"""
    out = [] if out is None else out
    if len(out) > 5:
        return out
    if isinstance(a, dict) and isinstance(b, dict):
        for k in sorted(set(a) | set(b)):
            if k not in a or k not in b:
                out.append(f'{path}/{k}: present on one side only ({a.get(k)!r} vs {b.get(k)!r})')
            else:
                diff_json(a[k], b[k], f'{path}/{k}', tol, out)
    elif isinstance(a, list) and isinstance(b, list):
        if len(a) != len(b):
            out.append(f'{path}: list length {len(a)} vs {len(b)}')
        else:
            for i, (x, y) in enumerate(zip(a, b)):
                diff_json(x, y, f'{path}[{i}]', tol, out)
    elif isinstance(a, bool) or isinstance(b, bool) or a is None or b is None or isinstance(a, str) or isinstance(b, str):
        if a != b:
            out.append(f'{path}: {a!r} vs {b!r}')
    elif isinstance(a, (int, float)) and isinstance(b, (int, float)):
        if not (a == b or abs(a - b) <= tol):
            out.append(f'{path}: {a!r} vs {b!r}')
    elif a != b:
        out.append(f'{path}: {a!r} vs {b!r}')
    return out


def canon_export(doc):
    """order-independent form: elements by uid, connections as a sorted list"""
    return {'elements': {e['uid']: e for e in doc['elements']},
            'connections': sorted((x['from_node'], x['to_node']) for x in doc['connections'])}


def design_doc(topo, eq, sim):
    from gnpy.tools.json_io import network_to_json
    net, equipment, _, _ = c.design(topo, eq, sim=sim)
    return net, equipment, network_to_json(net)


def receiver_figures(net, equipment, sim):
    import numpy as np
    out = {}
    c.set_sim_params(sim)
    for path in c.all_simple_trx_paths(net)[:4]:
        req = c.make_request(equipment, path[0].uid, path[-1].uid,
                             spectrum=[dict(f=191.4e12 + i * 0.4e12) for i in range(12)])
        try:
            pth, si, rec = c.propagate_recorded(path, req, equipment)
        except Exception as exc:  # noqa
            out[(path[0].uid, path[-1].uid)] = f'raised {type(exc).__name__}'
            continue
        rx = pth[-1]
        out[(path[0].uid, path[-1].uid)] = (np.array(rx.snr_01nm), np.array(rx.osnr_ase_01nm), np.array(rx.osnr_nli),
                                            [e.uid for e in pth], np.array(rx.pmd), np.array(rx.pdl),
                                            np.array(rx.chromatic_dispersion), np.array(rx.latency))
    return out


# ---- the same input designed in separate processes under different string-hash seeds ------------------------------------------
HASH_INPUTS = [
    {'eq': 'multiband', 'bands': 'CL', 'graph': 'P2', 'chain': 'F80_F60'},
    {'eq': 'multiband', 'bands': 'CL', 'graph': 'P3', 'chain': 'F80'},
    {'eq': 'multiband', 'bands': 'CL_first', 'graph': 'TRI', 'chain': 'F40_U_F30'},
    {'eq': 'multiband', 'bands': 'C', 'graph': 'P2', 'chain': 'F120'},
    {'eq': 'multiband', 'bands': 'CLn', 'graph': 'P2', 'chain': 'F10', 'chain_rev': 'F10', 'drop_ter': True},
    {'eq': 'multiband', 'bands': 'CLn', 'graph': 'P2', 'chain': 'F80', 'drop_ter': True},
    {'eq': 'multiband', 'bands': 'CLn', 'graph': 'P3', 'chain': 'F80_F60'},
    {'eq': 'example', 'graph': 'TRI', 'chain': 'F200', 'max_length': 90},
    {'eq': 'example', 'graph': 'P3', 'chain': 'F120', 'chain_rev': 'F200'},
    {'eq': 'test', 'graph': 'TRI', 'chain': 'F100_F100_F100'},
    {'eq': 'test', 'graph': 'P3', 'chain': 'F80_E_F70', 'mode': 'gain'},
]


def other_library(eq):
    """the same library with other noise data under the same model names"""
    eq = copy.deepcopy(eq)
    for e in eq['Edfa']:
        if 'nf_min' in e and 'nf_max' in e:
            shift = 2.5 if len(e['type_variety']) % 2 else -1.0
            e['nf_min'], e['nf_max'] = e['nf_min'] + shift, e['nf_max'] + shift
    return eq


def digest_cli(arg):
    """child process: design one input, print a digest of the export and the selected amplifier models"""
    import hashlib
    from gnpy.tools.json_io import network_to_json
    case = json.loads(arg)
    try:
        if case.get('pollute'):
            # this process first designs the same topology against another library that uses the same model names
            other = other_library(tg.library(case))
            try:
                c.design(tg.topology(case), other)
            except Exception:  # noqa
                pass
        net, equipment, _, _ = c.design(tg.topology(case), tg.library(case))
        doc = canon_export(network_to_json(net))
        text = json.dumps(doc, sort_keys=True)
        models = sorted((u, e.get('type_variety'), [a.get('type_variety') for a in e.get('amplifiers', [])])
                        for u, e in doc['elements'].items() if e['type'] in ('Edfa', 'Multiband_amplifier'))
        print('DIGEST ' + json.dumps({'sha': hashlib.sha256(text.encode()).hexdigest(), 'models': models}))
    except Exception as exc:  # noqa
        print('DIGEST ' + json.dumps({'sha': f'raised:{type(exc).__name__}:{str(exc)[:120]}', 'models': []}))


def run_hashseed(case):
    import os
    import subprocess
    import sys
    viol = []
    outs = {}
    for hs in case['hashseeds']:
        env = dict(os.environ, PYTHONHASHSEED=str(hs))
        r = subprocess.run([sys.executable, '-c', 'import sys; from checks import c17; c17.digest_cli(sys.argv[1])',
                            json.dumps(case['input'])], env=env, capture_output=True, text=True, timeout=300)
        line = next((x for x in r.stdout.splitlines() if x.startswith('DIGEST ')), None)
        if line is None:
            return {'status': 'unjudged', 'unjudged': 1, 'tags': {'hashseed-child-failed': 1}, 'sample': case,
                    'transitions': 0}
        outs[hs] = json.loads(line[7:])
    ref = outs[case['hashseeds'][0]]
    # and once in a process that has designed against another library (same model names, other noise data) before
    env = dict(os.environ, PYTHONHASHSEED=str(case['hashseeds'][0]))
    r = subprocess.run([sys.executable, '-c', 'import sys; from checks import c17; c17.digest_cli(sys.argv[1])',
                        json.dumps(dict(case['input'], pollute=True))], env=env, capture_output=True, text=True, timeout=300)
    line = next((x for x in r.stdout.splitlines() if x.startswith('DIGEST ')), None)
    if line is not None:
        o = json.loads(line[7:])
        if o['sha'] != ref['sha']:
            diff = [(a, b) for a, b in zip(ref['models'], o['models']) if a != b][:2]
            viol.append(dict(fingerprint='design-depends-on-earlier-design-in-the-process', case=case,
                             what=f'input {case["input"]}: designed after a design against another library (same model names, '
                                  f'other noise figures) the export differs from the design in a fresh process: {diff}'))
    for hs, o in outs.items():
        if o['sha'] != ref['sha']:
            diff = [(a, b) for a, b in zip(ref['models'], o['models']) if a != b][:2]
            viol.append(dict(fingerprint='design-differs-between-processes', case=case,
                             what=f'input {case["input"]}: the export of the design differs between two interpreter processes '
                                  f'(PYTHONHASHSEED {case["hashseeds"][0]} vs {hs}); amplifier models that differ: {diff}'))
            break
    return {'violations': viol, 'transitions': len(outs), 'traces': 0 if viol else 1, 'nontrivial': not ref['sha'].startswith('raised'),
            'tags': {'hashseed-inputs': 1, 'hashseed-designs': len(outs)}, 'outcomes': ['hashseed'], 'sample': case}


def run_case(case):
    import numpy as np
    from gnpy.core.exceptions import ConfigurationError
    if case.get('kind') == 'hashseed':
        return run_hashseed(case)
    viol = []

    def v(fp, what):
        viol.append(dict(fingerprint=fp, what=what, case=case))
    sim = SIMS[case['sim']]
    raman_in_topo = tg.has_raman(case['chain']) or tg.has_raman(case['chain_rev'])
    if raman_in_topo and not sim.get('raman_params', {}).get('flag'):
        return {'status': 'rejected', 'tags': {'skipped:raman-fibre-without-raman-flag': 1}}
    eq = tg.library(case)
    topo = topology(case)
    tags = {}
    transitions = 0
    try:
        c.set_sim_params(sim)
        before = sim_json()
        try:
            net0, equipment, doc0 = design_doc(topo, eq, sim)
        except Exception as exc:  # noqa  (aborted designs are judged by C08; their SimParams state is only recorded)
            after = sim_json()
            c.set_sim_params({})
            return {'status': 'rejected', 'tags': {f'design-aborted:{type(exc).__name__}': 1,
                                                   'simparams-changed-by-aborted-design': int(after != before)}}
        transitions += 1
        after = sim_json()
        if after != before:
            v('simparams-changed-by-design', f'simulation parameters before design {before} after {after}')
        # same input twice, with a design of the same topology against another library (same model names, other noise data)
        # in between: what was designed before must not matter
        eq_other = other_library(eq)
        try:
            design_doc(topo, eq_other, sim)
        except Exception:  # noqa  (only the effect on the next design matters)
            pass
        net0b, _, doc0b = design_doc(topo, eq, sim)
        transitions += 1
        d = diff_json(canon_export(doc0), canon_export(doc0b), tol=0.0)
        if d:
            v('design-not-repeatable', f'two designs of the same input differ: {d[:3]}')
        if sim_json() != before:
            v('simparams-changed-by-design', f'simulation parameters changed by the second design: {sim_json()}')
        # rounds
        fig0 = receiver_figures(net0, equipment, sim)
        prev = doc0
        for r in range(case['rounds']):
            from gnpy.tools.convert_legacy_yang import yang_to_legacy
            try:
                reloaded = yang_to_legacy(json.loads(json.dumps(prev)))     # what load_network() does with a saved file
            except Exception as exc:  # noqa
                v(f'exported-design-cannot-be-loaded:{type(exc).__name__}', f'round {r + 1}: the export is rejected by the loader: '
                  f'{str(exc)[:300]}')
                break
            try:
                netr, equipment_r, docr = design_doc(reloaded, eq, sim)
            except Exception as exc:  # noqa
                v(f'exported-design-cannot-be-redesigned:{type(exc).__name__}', f'round {r + 1}: {type(exc).__name__}: '
                  f'{str(exc)[:200]}')
                break
            transitions += 1
            d = diff_json(canon_export(prev), canon_export(docr))
            eol = equipment['Span']['default'].EOL
            if d and eol != 0:
                # known behaviour under test: EOL is added again. Report it, then judge everything else on an input whose
                # con_out has been reduced by EOL where design will add it (so that other differences are not masked)
                added = [uid for uid, e in canon_export(docr)['elements'].items()
                         if e['type'] in ('Fiber', 'RamanFiber') and uid in canon_export(prev)['elements'] and
                         abs(e['params']['con_out'] - canon_export(prev)['elements'][uid]['params']['con_out'] - eol) < 1e-9]
                if added:
                    v('redesign-changes-export:EOL-added-again', f'round {r + 1}: con_out of {len(added)} fibres grew by EOL '
                      f'({eol} dB) when the exported design was designed again, e.g. {added[0]}')
                    comp = yang_to_legacy(json.loads(json.dumps(prev)))
                    for e in comp['elements']:
                        if e['uid'] in added:
                            e['params']['con_out'] = e['params']['con_out'] - eol
                    netr, equipment_r, docr = design_doc(comp, eq, sim)
                    d = diff_json(canon_export(prev), canon_export(docr))
            if d:
                kinds = sorted({x.split(':')[-2].split('/')[-1].split('[')[0] for x in d})
                v('redesign-changes-export:' + '+'.join(kinds[:3]), f'round {r + 1}: export differs from the previous round: {d[:4]}')
                break
            if sim_json() != before:
                v('simparams-changed-by-design', f'round {r + 1}: simulation parameters now {sim_json()}')
                break
            if r == 0:
                figr = receiver_figures(netr, equipment_r, sim)
                for k, val in fig0.items():
                    other = figr.get(k)
                    if isinstance(val, str) or isinstance(other, str) or other is None:
                        if (isinstance(val, str)) != (isinstance(other, str)):
                            v('propagation-differs-after-reload', f'path {k}: {val if isinstance(val, str) else "ok"} vs '
                              f'{other if isinstance(other, str) else "ok"}')
                        continue
                    if val[3] != other[3]:
                        v('propagation-differs-after-reload', f'path {k}: element sequence differs')
                        continue
                    for i, nm in enumerate(('GSNR', 'OSNR_ASE', 'SNR_NLI')):
                        if not np.allclose(val[i], other[i], rtol=0, atol=1e-4):
                            v('propagation-differs-after-reload', f'path {k}: {nm} {val[i][:2].tolist()} on the design vs '
                              f'{other[i][:2].tolist()} on the reloaded design')
                            break
                    for i, nm in ((4, 'PMD'), (5, 'PDL'), (6, 'CD'), (7, 'latency')):
                        if not np.allclose(val[i], other[i], rtol=1e-6, atol=0):
                            v('propagation-differs-after-reload:' + nm, f'path {k}: accumulated {nm} {val[i][:2].tolist()} on the '
                              f'design vs {other[i][:2].tolist()} on the reloaded design')
                            break
                transitions += len(fig0)
            prev = docr
        if any(e.get('operational', {}).get('out_voa') for e in doc0['elements'] if e['type'] == 'Edfa'):
            tags['voa'] = 1
        if len(doc0['elements']) > len(topo['elements']):
            tags['design-inserted-elements'] = 1
        if raman_in_topo:
            tags['raman-estimate-ran'] = 1
        tags['sim:' + case['sim']] = 1
        if case.get('roadm', 'plain') != 'plain' and any(e['type'] == 'Roadm' and e.get('params') for e in topo['elements']):
            tags['roadm:' + case['roadm']] = 1
    finally:
        c.set_sim_params({})
    return {'violations': viol[:6], 'transitions': transitions, 'traces': 0 if viol else 1, 'nontrivial': bool(tags), 'tags': tags,
            'outcomes': [case['chain'] + '/' + case['sim']], 'sample': case}


def main(rep, tier, seed):
    sp = engine.Space(SPACE, bases=[{}, {'graph': 'P3', 'chain': 'R80_E', 'sim': 'raman_p2', 'eq': 'example', 'EOL': 1.5},
                                    {'chain': 'F1000', 'max_length': 90, 'mode': 'gain', 'voa_auto': 1},
                                    {'graph': 'P3', 'chain': 'Etype_F100_Egain', 'chain_rev': 'Evoa_F90_Edp', 'roadm': 'deg_psw'},
                                    {'graph': 'TRI', 'chain': 'Evoa_F100', 'roadm': 'node_psd+deg_psw'}],
                      constraint=space_ok)
    d = 2 if tier == 'quick' else 3
    bases = engine.pick_bases(sp.bases, seed, tier, n_quick=2)
    cases = [{k: x[k] for k in SPACE} for x in sp.enumerate(d, bases=bases)]
    hs = list(range(4 if tier == 'quick' else 12))
    cases += [dict(kind='hashseed', input=i, hashseeds=hs) for i in HASH_INPUTS]
    results, stats = engine.run_pool('checks.c17', cases, horizon=600)
    rep.absorb(results)
    rep.cov['bound'] = f'<= {d} deviations from base points {bases} over {list(SPACE)}; 1-3 export/reload/redesign rounds; + {len(HASH_INPUTS)} inputs designed in {len(hs)} separate processes with PYTHONHASHSEED 0..{len(hs) - 1}'
    rep.cov['space_size'] = len(cases)
    rep.cov['exhaustive'] = not stats['budget_hit'] and len(results) == len(cases)
    rep.cov['rule'] = ('a case = a history: design, design again, then k rounds of network_to_json -> json dump/load -> '
                       'network_from_json -> designed_network; transitions = designs + propagated paths compared. Oracle: exports '
                       'equal (numbers within 2e-6, everything else exactly), receiver figures equal within 1e-4 dB, SimParams '
                       'JSON identical before/after every completed design. Non-trivial: design inserted elements / set a VOA / '
                       'ran the Raman estimate.')
    rep.assumptions += ['designs that abort with an error are not judged here (C08 judges them); their SimParams state is recorded']
    rep.require(rep.tags.get('hashseed-inputs', 0) == len(HASH_INPUTS), 'hash-seed designs did not all run')
    for k in ('design-inserted-elements', 'raman-estimate-ran', 'sim:raman_p2', 'roadm:node_psw', 'roadm:deg_psw', 'roadm:deg_psd',
              'roadm:deg_pch', 'roadm:restrict'):
        rep.require(rep.tags.get(k, 0) >= 1, f'{k} never observed')
