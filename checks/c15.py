"""C15 - every designed network yields a consistent OMS partition and spectrum map.

Part (a): complete enumeration of band-profile assignments to the OMS of micro topologies (P2, P3, triangle),
          real designed_network + build_oms_list, oracle = independent band model + graph walk.
Part (b): align_grids on every set of 2-3 bitmaps with extents from a grid of (n_min, n_max) pairs and
          pre-existing occupied runs.
"""
import itertools

from mc import engine
from checks import common as c

GRID = 6.25e9
F0 = 193.1e12

PROFILES = ['C', 'Cn', 'Cd', 'L', 'CL', 'CLr', 'CLc', 'CLm', 'auto']


def mb(variety, amps):
    return {'type': 'Multiband_amplifier', 'type_variety': variety,
            'amplifiers': [{'type_variety': a, 'operational': {}} for a in amps]}


def chain(profile, length):
    P = {
        'C': lambda: (c.edfa('std_low_gain'), c.edfa('std_low_gain')),
        'Cn': lambda: (c.edfa('std_low_gain'), c.edfa('std_low_gain_reduced_band')),
        'Cd': lambda: (c.edfa('std_medium_gain'), c.edfa('std_medium_gain')),
        'L': lambda: (c.edfa('std_low_gain_L'), c.edfa('std_low_gain_L')),
        'CL': lambda: (mb('std_low_gain_multiband', ['std_low_gain', 'std_low_gain_L']),
                       {'type': 'Multiband_amplifier', 'type_variety': 'std_low_gain_multiband'}),
        'CLr': lambda: (mb('std_low_gain_multiband', ['std_low_gain', 'std_low_gain_L']),
                        mb('std_low_gain_multiband_reduced_bis', ['std_low_gain_bis', 'std_low_gain_L_reduced_band'])),
        'CLc': lambda: (mb('std_low_gain_multiband', ['std_low_gain', 'std_low_gain_L']),
                        mb('mb_reducedC', ['std_low_gain_reduced_band', 'std_low_gain_L'])),
        'CLm': lambda: (mb('std_medium_gain_multiband', ['std_medium_gain_C', 'std_medium_gain_L']),
                        mb('std_low_gain_multiband', ['std_low_gain', 'std_low_gain_L'])),
    }
    if profile == 'auto':
        return [c.fiber(length)]
    a, b = P[profile]()
    return [a, c.fiber(length), b]


TOPOS = {
    'P2': (['A', 'B'], [('A', 'B')]),
    'P3': (['A', 'B', 'C'], [('A', 'B'), ('B', 'C')]),
    'TRI': (['A', 'B', 'C'], [('A', 'B'), ('B', 'C'), ('A', 'C')]),
    # A<->B in both directions, B->C and C->A in one direction only: two OMS have no opposite direction
    'RING1W': (['A', 'B', 'C'], [('A', 'B'), ('B', 'C', 'oneway'), ('C', 'A', 'oneway')]),
}


def build(case):
    sites, links = TOPOS[case['topo']]
    ls = []
    k = 0
    for a, b, *one in links:
        if one:
            ls.append((a, b, chain(case['profiles'][k], 60 + 5 * k), None))
            k += 1
            continue
        ls.append((a, b, chain(case['profiles'][k], 60 + 5 * k), chain(case['profiles'][k + 1], 60 + 5 * k)))
        k += 2
    cband = [{'f_min': 191.3e12, 'f_max': 195.1e12, 'spacing': 50e9}]
    rp = {s: {'params': {'design_bands': cband}} for s in sites}
    return c.build_topology(sites, ls, roadm_params=rp)


def library():
    eq = c.eqpt_json('eqpt_config_multiband.json')
    # a C+L model whose *upper* band is narrower (the shipped library only has a narrower lower band)
    eq['Edfa'].append({'type_variety': 'mb_reducedC', 'type_def': 'multi_band',
                       'amplifiers': ['std_low_gain_reduced_band', 'std_low_gain_L'], 'allowed_for_design': False})
    return eq


def expected_common(el_list, equipment):
    """independent band model: intersection over the amplifiers of an OMS of their band sets"""
    from gnpy.core.elements import Edfa, Multiband_amplifier
    sets = []
    for n in el_list:
        if isinstance(n, Multiband_amplifier):
            sets.append([(a.params.f_min, a.params.f_max) for a in n.amplifiers.values()])
        elif isinstance(n, Edfa):
            sets.append([(n.params.f_min, n.params.f_max)])
    if not sets:
        si = equipment['SI']['default']
        return [(si.f_min, si.f_max)]
    cur = sets[0]
    for s in sets[1:]:
        nxt = []
        for a0, a1 in cur:
            for b0, b1 in s:
                lo, hi = max(a0, b0), min(a1, b1)
                if lo < hi:
                    nxt.append((lo, hi))
        cur = nxt
    return sorted(cur)


def on_grid(f):
    x = (f - F0) / GRID
    return abs(x - round(x)) < 1e-6


def check_network(case):
    from gnpy.core.elements import Roadm, Transceiver, Edfa, Multiband_amplifier, Fiber, Fused
    from gnpy.core.exceptions import ConfigurationError, NetworkTopologyError, EquipmentConfigError
    from gnpy.topology.spectrum_assignment import build_oms_list
    viol = []

    def v(fp, what):
        viol.append(dict(fingerprint=fp, what=what))
    topo = build(case)
    eq = library()
    try:
        net, equipment, _, _ = c.design(topo, eq)
    except (ConfigurationError, NetworkTopologyError, EquipmentConfigError) as exc:
        return {'status': 'rejected', 'tags': {f'design-rejected:{type(exc).__name__}': 1}}
    # the bands of the built amplifiers are those their models declare in the equipment document
    from checks.c07 import bands_vs_library
    bad = bands_vs_library(list(net.nodes()), eq)
    if bad:
        v('amplifier-band-differs-from-library', bad[0])
    bands_all = []
    for n in net.nodes():
        if isinstance(n, Multiband_amplifier):
            bands_all += [(a.params.f_min, a.params.f_max) for a in n.amplifiers.values()]
        elif isinstance(n, Edfa):
            bands_all.append((n.params.f_min, n.params.f_max))
    net_fmin, net_fmax = min(b[0] for b in bands_all), max(b[1] for b in bands_all)
    distinct_bands = len({tuple(sorted(set(expected_common(p, equipment)))) for p in [list(net.nodes())]})
    try:
        oms_list = build_oms_list(net, equipment)
    except Exception as exc:  # noqa  "for every designed network the OMS list can be built"
        profs = case['profiles']
        kind = 'oms-band-ends-below-network-max'
        v(f'build_oms_list-raised:{type(exc).__name__}', f'build_oms_list raised {type(exc).__name__}: {str(exc)[:200]} '
          f'on {case["topo"]} with OMS band profiles {profs} ({kind}?)')
        return {'violations': viol, 'transitions': 1, 'nontrivial': len(set(case['profiles'])) > 1,
                'tags': {'build-raised': 1}}
    transitions = 1
    # partition
    line = [n for n in net.nodes() if isinstance(n, (Fiber, Fused, Edfa, Multiband_amplifier))]
    count = {n.uid: 0 for n in line}
    for o in oms_list:
        for e in o.el_list[1:-1]:
            if e.uid in count:
                count[e.uid] += 1
            else:
                v('oms-contains-non-line-element', f'OMS {o.oms_id} lists {e.uid} between its end points')
        a, b = o.el_list[0], o.el_list[-1]
        if not isinstance(a, (Roadm, Transceiver)) or not isinstance(b, Roadm):
            v('oms-endpoints', f'OMS {o.oms_id} runs from {a.uid} to {b.uid}')
        for x, y in zip(o.el_list, o.el_list[1:]):
            if not net.has_edge(x, y):
                v('oms-not-a-path', f'OMS {o.oms_id}: {x.uid} -> {y.uid} is not an edge')
        for e in o.el_list[1:-1]:
            if isinstance(e, Roadm):
                v('oms-crosses-roadm', f'OMS {o.oms_id} crosses {e.uid}')
            if getattr(e, 'oms_id', None) != o.oms_id or getattr(e, 'oms', None) is not o:
                v('element-oms-backref', f'{e.uid} oms_id={getattr(e, "oms_id", None)} but listed in OMS {o.oms_id}')
    for uid, k in count.items():
        if k != 1:
            v('element-not-in-exactly-one-oms', f'{uid} belongs to {k} OMS')
    # pairing
    tags_pair = {}
    for o in oms_list:
        r = o.reversed_oms
        opp = [x for x in oms_list if x.el_id_list[0] == o.el_id_list[-1] and x.el_id_list[-1] == o.el_id_list[0]]
        if r is None:
            tags_pair['unpaired-oms'] = 1
            if opp:
                v('reverse-missing', f'OMS {o.oms_id} has no reversed_oms although OMS {opp[0].oms_id} is opposite')
        else:
            if r not in opp:
                v('reverse-wrong', f'OMS {o.oms_id} paired with {r.oms_id} which is not the opposite direction')
            elif r.reversed_oms is not o:
                v('reverse-not-mutual', f'OMS {o.oms_id} <-> {r.oms_id} pairing is not mutual')
    # spectrum maps
    n_lo, n_hi = round((net_fmin - F0) / GRID), round((net_fmax - F0) / GRID)
    judged_maps = 0
    unus = 0
    for o in oms_list:
        bm = o.spectrum_bitmap
        if bm.freq_index != list(range(bm.n_min, bm.n_max + 1)):
            v('freq-index-not-consecutive', f'OMS {o.oms_id}: freq_index is not range(n_min, n_max+1)')
        if len(bm.bitmap) != len(bm.freq_index):
            v('bitmap-length', f'OMS {o.oms_id}: {len(bm.bitmap)} slots for {len(bm.freq_index)} indices')
        if (bm.n_min, bm.n_max) != (oms_list[0].spectrum_bitmap.n_min, oms_list[0].spectrum_bitmap.n_max):
            v('extent-differs', f'OMS {o.oms_id} spans {bm.n_min}..{bm.n_max}, OMS 0 spans '
              f'{oms_list[0].spectrum_bitmap.n_min}..{oms_list[0].spectrum_bitmap.n_max}')
        exp = expected_common(o.el_list, equipment)
        if not all(on_grid(f) for b in exp for f in b) or not (on_grid(net_fmin) and on_grid(net_fmax)):
            continue
        judged_maps += 1
        if on_grid(net_fmin) and on_grid(net_fmax) and (bm.n_min, bm.n_max) != (n_lo, n_hi):
            v('extent-not-network-range', f'OMS {o.oms_id} spans {bm.n_min}..{bm.n_max}, network amplifier range is '
              f'{n_lo}..{n_hi}')
        for i, n in enumerate(bm.freq_index[:len(bm.bitmap)]):
            f = F0 + n * GRID
            inside = any(lo - 1e3 <= f <= hi + 1e3 for lo, hi in exp)
            val = bm.bitmap[i].name
            if inside and val != 'FREE':
                v('usable-slot-not-free', f'OMS {o.oms_id}: slot n={n} ({f / 1e12:.5f} THz) inside common band {exp} is {val}')
                break
            if not inside and val != 'UNUSABLE':
                v('unusable-slot-marked-' + val.lower(), f'OMS {o.oms_id}: slot n={n} ({f / 1e12:.5f} THz) outside common '
                  f'bands {exp} is {val}')
                break
            unus += (val == 'UNUSABLE')
    return {'violations': viol, 'transitions': transitions + len(oms_list), 'traces': 0 if viol else 1,
            'nontrivial': len({tuple(expected_common(o.el_list, equipment)) for o in oms_list}) > 1,
            'tags': {**tags_pair, 'built': 1, 'maps-with-unusable': int(unus > 0), 'maps-judged': judged_maps},
            'outcomes': [str(sorted({tuple(expected_common(o.el_list, equipment)) for o in oms_list}))],
            'sample': {'topo': case['topo'], 'profiles': case['profiles'], 'oms': len(oms_list)}}


# ---- part (b) -----------------------------------------------------------------------------------------------
EXTENTS = [(-24, 23), (-24, 7), (-8, 23), (-8, 7), (-40, -26), (-16, 31), (8, 20)]
RUNS = [[], [(0, 2)], [(0, 1), (-1, 1)]]     # (offset from n_min+6 / from n_max-6, m): occupied runs incl. near the ends


def make_oms(ext, runs, i):
    from gnpy.topology.spectrum_assignment import OMS, BitmapValue
    lo, hi = ext
    o = OMS(oms_id=i, el_id_list=[f'a{i}', f'b{i}'], el_list=[])
    bitmap = [BitmapValue.FREE] * (hi - lo + 1)
    o.update_spectrum(F0 + lo * GRID, F0 + hi * GRID, existing_spectrum=bitmap)
    bm = o.spectrum_bitmap
    if (bm.n_min, bm.n_max) != (lo, hi):
        return None
    marks = {}
    for k, (off, m) in enumerate(runs):
        n = (lo + 6 + off) if k == 0 else (hi - 6 + off)
        o.assign_spectrum(n, m)
    # also mark first and last slot by hand as UNUSABLE so edge values can be followed
    bm.bitmap[0] = BitmapValue.UNUSABLE
    bm.bitmap[-1] = BitmapValue.UNUSABLE
    for idx, n in enumerate(bm.freq_index):
        marks[n] = bm.bitmap[idx].name
    return o, marks


def check_align(case):
    from gnpy.topology.spectrum_assignment import align_grids
    viol = []

    def v(fp, what):
        viol.append(dict(fingerprint=fp, what=what))
    built = [make_oms(tuple(e), RUNS[r], i) for i, (e, r) in enumerate(zip(case['extents'], case['runs']))]
    if any(b is None for b in built):
        return {'status': 'unjudged'}
    oms = [b[0] for b in built]
    marks = [b[1] for b in built]
    g_lo = min(e[0] for e in case['extents'])
    g_hi = max(e[1] for e in case['extents'])
    align_grids(oms)
    for o, mk, ext in zip(oms, marks, case['extents']):
        bm = o.spectrum_bitmap
        where = f'map {ext} aligned with {case["extents"]}'
        if (bm.n_min, bm.n_max) != (g_lo, g_hi):
            v('align:extent', f'{where}: spans {bm.n_min}..{bm.n_max}, expected {g_lo}..{g_hi}')
        if len(set(bm.freq_index)) != len(bm.freq_index):
            v('align:duplicate-index', f'{where}: {len(bm.freq_index)} indices, {len(set(bm.freq_index))} distinct')
        if bm.freq_index != list(range(g_lo, g_hi + 1)):
            v('align:index-not-consecutive', f'{where}: freq_index runs {bm.freq_index[0]}..{bm.freq_index[-1]} '
              f'with {len(bm.freq_index)} entries')
        if len(bm.bitmap) != len(bm.freq_index):
            v('align:length', f'{where}: {len(bm.bitmap)} slots vs {len(bm.freq_index)} indices')
        try:
            for i in range(len(bm.freq_index)):
                if bm.geti(bm.getn(i)) != i:
                    v('align:geti-getn', f'{where}: geti(getn({i})) = {bm.geti(bm.getn(i))}')
                    break
        except (ValueError, IndexError) as exc:
            v('align:geti-getn', f'{where}: {type(exc).__name__} {exc}')
        for n, val in mk.items():
            try:
                got = bm.bitmap[bm.freq_index.index(n)].name
            except (ValueError, IndexError):
                got = 'missing'
            if got != val:
                v('align:occupancy-moved', f'{where}: slot n={n} was {val}, is {got} after alignment')
                break
        for idx, n in enumerate(bm.freq_index[:len(bm.bitmap)]):
            if not (ext[0] <= n <= ext[1]) and bm.bitmap[idx].name == 'FREE':
                v('align:added-slot-free', f'{where}: added slot n={n} is FREE')
                break
    nested = any(a[0] < b[0] and b[1] < a[1] for a in case['extents'] for b in case['extents'])
    return {'violations': viol, 'transitions': len(oms), 'traces': 0 if viol else 1,
            'nontrivial': len(set(map(tuple, case['extents']))) > 1,
            'tags': {'align': 1, 'align-nested': int(nested)},
            'sample': case}


def run_case(case):
    if case['kind'] == 'net':
        return check_network(case)
    return check_align(case)


def main(rep, tier, seed):
    cases = []
    # (a) band profiles per OMS
    plan = []
    if tier == 'quick':
        profs = PROFILES
        plan.append(('P2', list(itertools.product(profs, repeat=2))))
        sp = engine.Space({f'o{i}': [profs[(seed + i) % 2 * 4]] + [p for p in profs if p != profs[(seed + i) % 2 * 4]]
                           for i in range(4)})
        plan.append(('P3', [tuple(x[f'o{i}'] for i in range(4)) for x in sp.enumerate(3)]))
        sp6 = engine.Space({f'o{i}': ['C'] + [p for p in profs if p != 'C'] for i in range(6)})
        plan.append(('TRI', [tuple(x[f'o{i}'] for i in range(6)) for x in sp6.enumerate(2)]))
        bound = 'P2: all 9^2 profile pairs; P3 and one-way ring (4 OMS, 2 unpaired): <=3 deviations from a uniform base; triangle: <=2 deviations'
    else:
        profs = PROFILES
        plan.append(('P2', list(itertools.product(profs, repeat=2))))
        plan.append(('P3', list(itertools.product(profs, repeat=4))))
        sp6 = engine.Space({f'o{i}': ['C'] + [p for p in profs if p != 'C'] for i in range(6)},
                           bases=[{}, {f'o{i}': 'CL' for i in range(6)}])
        plan.append(('TRI', [tuple(x[f'o{i}'] for i in range(6)) for x in sp6.enumerate(3)]))
        bound = 'P2: all 9^2; P3 and one-way ring (4 OMS, 2 unpaired): all 9^4; triangle: <=3 deviations from all-C and all-CL'
    for t, lst in plan:
        for p in lst:
            cases.append({'kind': 'net', 'topo': t, 'profiles': list(p)})
            if t == 'P3':
                cases.append({'kind': 'net', 'topo': 'RING1W', 'profiles': list(p)})
    n_net = len(cases)
    # (b) alignment
    exts = EXTENTS if tier == 'thorough' else EXTENTS[:5] + [EXTENTS[5 + seed % 2]]
    for k in (2, 3):
        for combo in itertools.product(exts, repeat=k):
            run_sets = itertools.product(range(len(RUNS)), repeat=k) if (tier == 'thorough' or k == 2) else \
                [tuple((i + seed) % len(RUNS) for i in range(k)), (0,) * k]
            for rs in run_sets:
                cases.append({'kind': 'align', 'extents': [list(e) for e in combo], 'runs': list(rs)})
    results, stats = engine.run_pool('checks.c15', cases, horizon=120)
    rep.absorb(results)
    rep.cov['bound'] = bound + f'; align_grids: all 2- and 3-sets over {len(exts)} extents x occupied-run patterns'
    rep.cov['space_size'] = len(cases)
    rep.cov['exhaustive'] = not stats['budget_hit'] and len(results) == len(cases)
    rep.cov['rule'] = (
        f'(a) {n_net} designed micro networks (P2/P3/triangle, eqpt_config_multiband library) with every listed assignment '
        'of amplifier band profiles {C, C narrow preamp, C default-band, L, C+L, C+L reduced L, C+L reduced C, C+L medium/low mix, '
        'auto-designed} to the OMS; real designed_network + build_oms_list; oracle: graph walk + independent band '
        'intersection. (b) align_grids on every 2-/3-set of bitmaps from a grid of extents (nested, overlapping, disjoint, '
        'identical) with pre-existing OCCUPIED/UNUSABLE marks. Non-trivial: OMS of one network differ in common band / '
        'maps differ in extent.')
    rep.assumptions += ['band edges on the 6.25 GHz grid are judged exactly; off-grid edges are skipped (none in this library)',
                        'amplifier bands are read from the built elements (params.f_min/f_max) and cross-checked with the model entries of the equipment document']
    rep.require(rep.tags.get('unpaired-oms', 0) >= 10, 'no network with an OMS without opposite direction')
    rep.require(rep.tags.get('built', 0) + rep.tags.get('build-raised', 0) >= 20, 'fewer than 20 networks reached build_oms_list')
    rep.require(rep.tags.get('maps-with-unusable', 0) >= 1 or rep.tags.get('build-raised', 0) >= 1,
                'no network with UNUSABLE slots was built')
    rep.require(rep.tags.get('align-nested', 0) >= 1, 'no nested alignment set explored')
