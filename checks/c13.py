"""C13 - a service is accepted exactly when its worst channel clears the mode's threshold.

Deviation-bounded enumeration over (line system, asymmetric reverse direction, ROADM add/drop noise model, system margin,
transmitter OSNR, penalty tables placed around the path's actual CD/PMD/PDL, threshold pattern of a 4-5 mode transceiver
built around the measured metric, request spacing, bidirectionality, per-mode equalisation offset).  Real planning();
oracle: independent receiver model from the recorder's last snapshot (tx OSNR and each add/drop once, interpolated
penalties, min over channels) for fixed modes; differential oracle (fixed-mode verdicts of the same run) for automatic
mode selection; receiver figures must equal the oracle's (no accumulation over the mode loop).
"""
import copy
import math

from mc import engine
from checks import common as c
from checks import reqgen as rg

SPACE = {
    'line': ['F100', 'F80_E_F80', 'F60neg', 'F120_F80', 'F100slope'],
    'rev': ['same', 'longer'],
    'roadm': ['ad100', 'ad38', 'ad30', 'detailed'],
    'margin': [0, 2],
    'tx_osnr': [40, 30, 100],
    'pen': ['none', 'cd_mid', 'cd_above', 'cd_first_above_actual', 'pmd_mid', 'pdl_mid', 'pdl_above', 'cd_neg_table', 'cd_steep', 'cd_steep_in',
            'cd_signed_nonzero'],
    'thr': ['all_pass', 'all_fail', 'edge_pass', 'edge_fail', 'only_low', 'only_high', 'only_mid'],
    'spacing': [50e9, 75e9, 37.5e9, 25e9],
    'bidir': [False, True],
    'offset_mode': [False, True],
}
THR_DELTA = {   # required OSNR = measured metric - delta (delta > 0 -> passes) for modes ranked high -> low
    'all_pass': [3, 3, 3, 3, 3], 'all_fail': [-3, -3, -3, -3, -3], 'edge_pass': [0.3, 0.3, 0.3, 0.3, 0.3],
    'edge_fail': [-0.3, -0.3, -0.3, -0.3, -0.3], 'only_low': [-3, -3, -3, 3, 3], 'only_high': [3, -3, -3, -3, -3],
    'only_mid': [-3, -3, 3, -3, -3],
}
# modes in rank order (baud desc, bit rate desc)
MODES = [
    dict(format='m64_400', baud_rate=64e9, bit_rate=400e9, min_spacing=75e9),
    dict(format='m64_300', baud_rate=64e9, bit_rate=300e9, min_spacing=75e9),
    dict(format='m32_200', baud_rate=32e9, bit_rate=200e9, min_spacing=50e9),
    dict(format='m32_150', baud_rate=32e9, bit_rate=150e9, min_spacing=50e9),
    dict(format='m32_100', baud_rate=32e9, bit_rate=100e9, min_spacing=37.5e9),
]


def fibre(length, variety='SSMF'):
    extra = {'dispersion_slope': 120.0} if variety == 'SLOPE' else {}     # the slope is an element parameter
    return c.fiber(length, variety=variety, con_in=0.25, con_out=0.25, **extra)


def line(kind, longer=False):
    x = 20 if longer else 0
    if kind == 'F100':
        return [fibre(100 + x)]
    if kind == 'F80_E_F80':
        return [fibre(80 + x), c.edfa(), fibre(80)]
    if kind == 'F60neg':
        return [fibre(60 + x, 'NEG')]
    if kind == 'F100slope':
        return [fibre(100 + x, 'SLOPE')]
    if kind == 'F120_F80':
        return [fibre(120 + x), c.edfa(), fibre(80)]
    raise ValueError(kind)


def penalties(kind, cd, pmd, pdl):
    """penalty table (list form of the library) placed around the actual impairments cd [ps/nm], pmd [ps], pdl [dB]"""
    a = abs(cd)
    if kind == 'none':
        return None
    if kind == 'cd_mid':
        return [{'chromatic_dispersion': 0.5 * a, 'penalty_value': 0.2}, {'chromatic_dispersion': 2.0 * a, 'penalty_value': 1.4}]
    if kind == 'cd_above':
        return [{'chromatic_dispersion': 0.3 * a, 'penalty_value': 0}, {'chromatic_dispersion': 0.8 * a, 'penalty_value': 0.5}]
    if kind == 'cd_first_above_actual':
        # explicit lower breakpoint at 0 is added by the loader; the next one is far above: interpolation near 0
        return [{'chromatic_dispersion': 50 * a, 'penalty_value': 5.0}]
    if kind == 'cd_neg_table':
        return [{'chromatic_dispersion': -3 * a, 'penalty_value': 1.0}, {'chromatic_dispersion': 0.9 * a, 'penalty_value': 0.0}]
    if kind == 'cd_signed_nonzero':
        # a table that starts below zero, has no point at 0 and a non-zero penalty around 0: the declared points are all there is
        return [{'chromatic_dispersion': -1.5 * a, 'penalty_value': 1.5}, {'chromatic_dispersion': 2.5 * a, 'penalty_value': 0.3}]
    if kind == 'cd_steep':
        # steep table around the mean: with a dispersion slope some channels are inside, some above the last breakpoint
        return [{'chromatic_dispersion': 0.99 * a, 'penalty_value': 0}, {'chromatic_dispersion': 1.02 * a, 'penalty_value': 3.0}]
    if kind == 'cd_steep_in':
        return [{'chromatic_dispersion': 0.9 * a, 'penalty_value': 0}, {'chromatic_dispersion': 1.1 * a, 'penalty_value': 6.0}]
    if kind == 'pmd_mid':
        return [{'pmd': 0.5 * pmd, 'penalty_value': 0.1}, {'pmd': 3 * pmd, 'penalty_value': 1.1}]
    if kind == 'pdl_mid':
        return [{'pdl': 0.5 * pdl, 'penalty_value': 0.3}, {'pdl': 2 * pdl, 'penalty_value': 0.9}]
    if kind == 'pdl_above':
        return [{'pdl': 0.2 * pdl, 'penalty_value': 0.3}, {'pdl': 0.9 * pdl, 'penalty_value': 0.9}]
    raise ValueError(kind)


def library(case, thresholds=None, pen_table=None):
    eq = c.eqpt_json('test')
    eq['Fiber'].append({'type_variety': 'SLOPE', 'dispersion': 1.67e-05, 'dispersion_slope': 120.0, 'effective_area': 83e-12,
                        'pmd_coef': 1.265e-15})
    eq['Fiber'].append({'type_variety': 'NEG', 'dispersion': -0.4e-05, 'effective_area': 72e-12, 'pmd_coef': 2.5e-15})
    si = eq['SI'][0]
    si['f_min'], si['f_max'] = 191.3e12, 193.1e12
    si['sys_margins'] = case['margin']
    si['tx_osnr'] = 40
    base = {'pmd': 2e-12, 'pdl': 0.8, 'restrictions': {'preamp_variety_list': [], 'booster_variety_list': []},
            'target_pch_out_db': -20}
    if case['roadm'] == 'detailed':
        imp = [
            {'roadm-path-impairments-id': 0, 'roadm-express-path': [
                {'frequency-range': {'lower-frequency': 186e12, 'upper-frequency': 198e12}, 'roadm-pmd': 1e-12, 'roadm-pdl': 0.5,
                 'roadm-maxloss': 3}]},
            {'roadm-path-impairments-id': 1, 'roadm-add-path': [
                {'frequency-range': {'lower-frequency': 186e12, 'upper-frequency': 192.2e12}, 'roadm-pmd': 1e-12, 'roadm-pdl': 0.6,
                 'roadm-maxloss': 2, 'roadm-osnr': 36},
                {'frequency-range': {'lower-frequency': 192.2e12, 'upper-frequency': 198e12}, 'roadm-pmd': 1e-12, 'roadm-pdl': 1.1,
                 'roadm-maxloss': 2, 'roadm-osnr': 43}]},
            {'roadm-path-impairments-id': 2, 'roadm-drop-path': [
                {'frequency-range': {'lower-frequency': 186e12, 'upper-frequency': 198e12}, 'roadm-pmd': 1e-12, 'roadm-pdl': 0.7,
                 'roadm-maxloss': 2, 'roadm-osnr': 39}]}]
        eq['Roadm'] = [dict(base, add_drop_osnr=33, **{'roadm-path-impairments': imp})]
    else:
        eq['Roadm'] = [dict(base, add_drop_osnr=int(case['roadm'][2:]))]
    modes = []
    for k, m in enumerate(MODES):
        mm = dict(m, OSNR=(thresholds or {}).get(m['format'], 0.0), roll_off=0.15, tx_osnr=case['tx_osnr'], cost=1)
        if case['offset_mode'] and m['format'] == 'm32_150':
            mm['equalization_offset_db'] = -3.0
        if pen_table and k != 1:
            mm['penalties'] = copy.deepcopy(pen_table)
        modes.append(mm)
    eq['Transceiver'] = [{'type_variety': 'T', 'frequency': {'min': 191.35e12, 'max': 196.1e12}, 'mode': modes}]
    return eq


def topology(case):
    return c.build_topology(['A', 'B'], [('A', 'B', line(case['line']), line(case['line'], case['rev'] == 'longer'))])


def doc_tables(pen_list):
    """penalty tables of a mode as the documents define them (docs/json.rst): per impairment the declared points sorted by
    boundary, with an implicit (0, 0) lower point only when every declared boundary is positive"""
    out = {}
    for imp in ('chromatic_dispersion', 'pmd', 'pdl'):
        pts = sorted((p[imp], p['penalty_value']) for p in (pen_list or []) if imp in p)
        if not pts:
            continue
        if all(x > 0 for x, _ in pts):
            pts.insert(0, (0, 0))
        out[imp] = {'up_to_boundary': [x for x, _ in pts], 'penalty_value': [y for _, y in pts]}
    return out


_DOC_PEN = {}


def mode_tables(fmt):
    """tables of the mode `fmt` from the equipment DOCUMENT of the current case (mode number 1 declares none)"""
    idx = [m['format'] for m in MODES].index(fmt)
    return doc_tables(_DOC_PEN.get('table')) if idx != 1 else {}


def interp_penalty(x, table):
    xs, ys = table['up_to_boundary'], table['penalty_value']
    if x < xs[0] or x > xs[-1]:
        return math.inf
    for i in range(len(xs) - 1):
        if xs[i] <= x <= xs[i + 1]:
            if xs[i + 1] == xs[i]:
                return ys[i]
            return ys[i] + (ys[i + 1] - ys[i]) * (x - xs[i]) / (xs[i + 1] - xs[i])
    return ys[-1]


def roadm_osnr_terms(case, freqs):
    """sum over the add and the drop ROADM of 10^(-osnr/10) per channel (express crossings add nothing)"""
    import numpy as np
    if case['roadm'] == 'detailed':
        add = np.array([36.0 if f <= 192.2e12 else 43.0 for f in freqs])
        drop = np.full(len(freqs), 39.0)
        return 10 ** (-add / 10) + 10 ** (-drop / 10)
    ad = float(case['roadm'][2:])
    return np.full(len(freqs), 10 ** (-ad / 10))


def oracle_rx(case, snap, tx_osnr, pen):
    """receiver GSNR in 0.1 nm, penalties and metric from the last recorded snapshot"""
    import numpy as np
    with np.errstate(divide='ignore'):
        g_line = snap['sr'] / (snap['ar'] + snap['nr']) * (snap['baud'] / 12.5e9)
    inv = 1 / g_line + 10 ** (-tx_osnr / 10) + roadm_osnr_terms(case, snap['f'])
    g_rx = -10 * np.log10(inv)
    total = np.zeros(len(g_rx))
    imp = {'chromatic_dispersion': snap['cd'] * 1e3, 'pmd': snap['pmd'] * 1e12, 'pdl': snap['pdl']}
    for k, table in (pen or {}).items():
        total = total + np.array([interp_penalty(float(x), table) for x in imp[k]])
    return g_rx, total, float(np.min(g_rx - total))


def segments(rec):
    """split the recorded steps into propagations (source transceiver ... destination transceiver)"""
    out, cur = [], []
    for st in rec.steps:
        if st['cls'] == 'Transceiver' and not cur:
            cur = [st]
        elif st['cls'] == 'Transceiver':
            cur.append(st)
            out.append(cur)
            cur = []
        elif cur:
            cur.append(st)
    return out


def plan(case, eq, requests):
    from gnpy.tools.worker_utils import planning
    net, equipment, _, _ = c.design(topology(case), eq)
    with c.recording() as rec:
        res = planning(net, equipment, rg.service(requests))
    return net, equipment, res, rec


def run_case(case):
    import numpy as np
    from gnpy.core.exceptions import ServiceError
    viol = []

    def v(fp, what, **kw):
        viol.append(dict(fingerprint=fp, what=what, observed=kw, case=case))
    spacing = case['spacing']
    fitting = [m for m in MODES if m['min_spacing'] <= spacing]
    tags = {}
    transitions = 0
    unjudged = 0
    # ---- pass 1: measure the impairments and the metric of every fitting mode at this spacing (threshold 0)
    eq0 = library(case)
    metric = {}
    pen_table = None
    _DOC_PEN['table'] = None
    if fitting:
        reqs = [rg.request(m['format'], 'trx A', 'trx B', trx_type='T', mode=m['format'], spacing=spacing, bidir=case['bidir'])
                for m in fitting]
        net, equipment, res, rec = plan(case, eq0, reqs[:1])
        seg = segments(rec)
        last = seg[0][-1]['post']
        cd, pmd, pdl = float(np.mean(last['cd'])) * 1e3, float(np.mean(last['pmd'])) * 1e12, float(np.mean(last['pdl']))
        pen_table = penalties(case['pen'], cd, pmd, pdl)
        _DOC_PEN['table'] = pen_table
        eq1 = library(case, pen_table=pen_table)
        net, equipment, res, rec = plan(case, eq1, reqs)
        seg = segments(rec)
        per_req = 2 if case['bidir'] else 1
        if len(seg) != per_req * len(reqs):
            return {'status': 'unjudged', 'tags': {'unexpected-propagation-count': 1}}
        trx = equipment['Transceiver']['T']
        for k, m in enumerate(fitting):
            lib_mode = next(x for x in trx.mode if x['format'] == m['format'])
            ms = []
            for d in range(per_req):
                snap = seg[k * per_req + d][-1]['post']
                g, p, mt = oracle_rx(case, snap, case['tx_osnr'], mode_tables(lib_mode['format']))
                ms.append(mt)
            metric[m['format']] = ms
    # ---- thresholds around the measured forward metric (bounded to keep them finite when penalties are infinite)
    thresholds = {}
    for k, m in enumerate(MODES):
        mt = metric.get(m['format'], [20.0])[0]
        if not math.isfinite(mt):
            mt = 15.0
        thresholds[m['format']] = round(mt - THR_DELTA[case['thr']][k] - case['margin'], 3)
    eq2 = library(case, thresholds=thresholds, pen_table=pen_table)
    # ---- pass 2: fixed-mode requests for every fitting mode + one automatic request, same spacing
    reqs = [rg.request('fix_' + m['format'], 'trx A', 'trx B', trx_type='T', mode=m['format'], spacing=spacing, bidir=case['bidir'])
            for m in fitting]
    reqs.append(rg.request('auto', 'trx A', 'trx B', trx_type='T', mode=None, spacing=spacing, bidir=case['bidir']))
    try:
        net, equipment, res, rec = plan(case, eq2, reqs)
    except ServiceError as exc:
        v('planning-raised:ServiceError', str(exc)[:200])
        return {'violations': viol, 'transitions': 1}
    oms_list, ppaths, rpaths, rqs, dsjn, result = res
    by_id = {rq.request_id: (rq, pp, rp) for rq, pp, rp in zip(rqs, ppaths, rpaths)}
    trx = equipment['Transceiver']['T']
    fixed_verdict = {}
    margin = case['margin']
    for m in fitting:
        rq, pp, rp = by_id['fix_' + m['format']]
        transitions += 1
        lib_mode = next(x for x in trx.mode if x['format'] == m['format'])
        thr = thresholds[m['format']] + margin          # the threshold of the equipment document, not of the loaded object
        reason = getattr(rq, 'blocking_reason', None)
        dirs = [pp] + ([rp] if case['bidir'] and rp else [])
        exp_block = False
        near = False
        for d, path in enumerate(dirs):
            rx = path[-1]
            # receiver model from the receiver's own raw line figures is NOT used: the oracle metric of pass 1 applies
            mt = metric[m['format']][d]
            if abs(mt - thr) <= 0.006:
                near = True
            if round(mt, 2) < thr:
                exp_block = True
            # stored figures equal the oracle's
            g, p, mt2 = oracle_from_path(case, path, lib_mode)
            if not np.allclose(np.array(rx.snr_01nm), g, rtol=0, atol=1e-6):
                v('receiver-gsnr-differs-from-model', f'{m["format"]} direction {d}: receiver GSNR(0.1nm) {np.array(rx.snr_01nm)[:2]} '
                  f'vs tx-OSNR/add-drop-once model {g[:2]}')
            if math.isfinite(mt) and abs(mt2 - mt) > 1e-6:
                v('metric-not-reproducible', f'{m["format"]} direction {d}: metric {mt2} in this batch vs {mt} measured alone')
            if np.isinf(p).any():
                tags['penalty-outside-table'] = 1
            elif (p > 0).any():
                tags['penalty-interpolated'] = 1
        if near:
            unjudged += 1
            fixed_verdict[m['format']] = None
            continue
        blocked = reason == 'MODE_NOT_FEASIBLE'
        fixed_verdict[m['format']] = not blocked
        if reason not in (None, 'MODE_NOT_FEASIBLE'):
            v('unexpected-reason-fixed-mode', f'{m["format"]}: {reason}')
        elif blocked != exp_block:
            v('fixed-mode-verdict-wrong' + (':bidir' if case['bidir'] else ''),
              f'mode {m["format"]} threshold {lib_mode["OSNR"]}+{margin} dB, metric(s) {[round(x, 3) for x in metric[m["format"]]]} '
              f'dB (min over channels of GSNR 0.1nm - penalties): reported {"blocked " + str(reason) if blocked else "feasible"}',
              metric=metric[m['format']], threshold=thr)
        tags['fixed-feasible' if not blocked else 'fixed-infeasible'] = 1
    # ---- automatic mode
    rq, pp, rp = by_id['auto']
    transitions += 1
    reason = getattr(rq, 'blocking_reason', None)
    if not fitting:
        if reason != 'NO_FEASIBLE_BAUDRATE_WITH_SPACING':
            v('auto-mode-no-fitting-baudrate', f'spacing {spacing / 1e9} GHz fits no mode; reason {reason}, mode {rq.tsp_mode}')
        tags['auto:no-baudrate'] = 1
    elif any(x is None for x in fixed_verdict.values()):
        unjudged += 1
    else:
        # forward-only feasibility decides the selection; use fixed-mode forward verdicts when not bidir, else recompute
        fwd_ok = {}
        for m in fitting:
            lib_mode = next(x for x in trx.mode if x['format'] == m['format'])
            thr = thresholds[m['format']] + margin
            fwd_ok[m['format']] = round(metric[m['format']][0], 2) > thr
        ranked = [m['format'] for m in fitting]
        expected = next((f for f in ranked if fwd_ok[f]), None)
        if expected is None:
            if reason != 'NO_FEASIBLE_MODE':
                v('auto-mode-should-be-infeasible' + (':offset-modes' if case['offset_mode'] else ''), f'no fitting mode is feasible (fixed-mode verdicts {fixed_verdict}); automatic '
                  f'selection reports reason {reason} mode {rq.tsp_mode}')
            tags['auto:none-feasible'] = 1
        else:
            if rq.tsp_mode != expected or reason not in (None, 'MODE_NOT_FEASIBLE'):
                v('auto-mode-wrong-choice' + (':offset-modes' if case['offset_mode'] else ''),
                  f'automatic selection at {spacing / 1e9} GHz chose {rq.tsp_mode} (reason {reason}); the highest-ranked mode that '
                  f'is feasible on its own is {expected}; forward feasibility per mode {fwd_ok}',
                  chosen=rq.tsp_mode, expected=expected)
            else:
                # the figures on the returned receiver are those of the chosen mode, not an accumulation
                lib_mode = next(x for x in trx.mode if x['format'] == expected)
                g, p, mt2 = oracle_from_path(case, pp, lib_mode)
                if not np.allclose(np.array(pp[-1].snr_01nm), g, rtol=0, atol=1e-6):
                    v('auto-mode-receiver-figures', f'receiver GSNR after the mode loop {np.array(pp[-1].snr_01nm)[:2]} vs '
                      f'model for {expected} {g[:2]}')
                if case['bidir']:
                    # the reverse direction of the automatic request is the reverse direction of the chosen mode
                    frp = by_id['fix_' + expected][2]
                    if rp and frp and not np.allclose(np.array(rp[-1].snr_01nm), np.array(frp[-1].snr_01nm), rtol=0, atol=1e-6):
                        v('auto-mode-reverse-figures', f'chosen {expected}: reverse-direction GSNR of the automatic request '
                          f'{np.array(rp[-1].snr_01nm)[:2]} differs from the same mode imposed {np.array(frp[-1].snr_01nm)[:2]}')
                    rev_block = round(metric[expected][1], 2) < thresholds[expected] + margin
                    if (reason == 'MODE_NOT_FEASIBLE') != rev_block:
                        v('auto-mode-reverse-verdict', f'chosen {expected}: reverse metric {metric[expected][1]:.3f} threshold '
                          f'{lib_mode["OSNR"] + margin}; reason {reason}')
            tags['auto:chosen-rank-' + str(ranked.index(expected))] = 1
    return {'violations': viol[:6], 'transitions': transitions, 'traces': 0 if viol else 1, 'unjudged': unjudged,
            'nontrivial': bool(tags), 'tags': tags, 'outcomes': sorted(tags), 'sample': case}


def oracle_from_path(case, path, lib_mode):
    """receiver model evaluated on the line figures stored by the propagated receiver (raw_*), for the equality check"""
    import numpy as np
    rx = path[-1]
    raw = np.array(rx.raw_snr_01nm)
    freqs = None
    # frequencies are not stored on the receiver: recover the channel count and use the uniform comb of the request
    n = len(raw)
    spacing = case['spacing']
    freqs = np.array([191.35e12 + spacing * (i + 1) for i in range(n)])
    inv = 10 ** (-raw / 10) + 10 ** (-case['tx_osnr'] / 10) + roadm_osnr_terms(case, freqs)
    g = -10 * np.log10(inv)
    imp = {'chromatic_dispersion': np.array(rx.chromatic_dispersion), 'pmd': np.array(rx.pmd), 'pdl': np.array(rx.pdl)}
    total = np.zeros(n)
    for k, table in mode_tables(lib_mode['format']).items():
        total = total + np.array([interp_penalty(float(x), table) for x in imp[k]])
    return g, total, float(np.min(g - total))


def main(rep, tier, seed):
    sp = engine.Space(SPACE, bases=[{}, {'line': 'F100slope', 'pen': 'cd_steep_in', 'thr': 'edge_pass'}, {'line': 'F80_E_F80', 'roadm': 'detailed', 'thr': 'only_low', 'bidir': True, 'rev': 'longer'},
                                    {'pen': 'cd_mid', 'thr': 'edge_pass', 'margin': 2, 'offset_mode': True}])
    d = 2 if tier == 'quick' else 3
    bases = engine.pick_bases(sp.bases, seed, tier, n_quick=3)
    cases = [{k: x[k] for k in SPACE} for x in sp.enumerate(d, bases=bases)]
    results, stats = engine.run_pool('checks.c13', cases, horizon=600)
    rep.absorb(results)
    rep.cov['bound'] = f'<= {d} deviations from base points {bases} over {list(SPACE)}'
    rep.cov['space_size'] = len(cases)
    rep.cov['exhaustive'] = not stats['budget_hit'] and len(results) == len(cases)
    rep.cov['rule'] = ('a case = one line system + one 5-mode transceiver whose thresholds are placed around the measured metric; '
                       'planning() is run on [fixed-mode request per fitting mode] + [one automatic request]; transitions = '
                       'requests judged. Fixed mode: blocked iff min over channels of (receiver GSNR 0.1 nm - interpolated '
                       'penalties, +inf outside the table) rounded to 2 decimals < OSNR + margin, both directions when '
                       'bidirectional; automatic: highest-ranked (baud rate, bit rate) fitting mode that is feasible. '
                       'Metrics within 0.006 dB of the threshold are unjudged.')
    rep.assumptions += ['line GSNR/CD/PMD/PDL are read from the recorder\'s last snapshot (C01-C06 judge them)',
                        'the uniform comb of a request starts at the transceiver minimum frequency + spacing']
    for k in ('fixed-feasible', 'fixed-infeasible', 'penalty-outside-table', 'penalty-interpolated', 'auto:none-feasible',
              'auto:no-baudrate'):
        rep.require(rep.tags.get(k, 0) >= 1, f'{k} never observed')
