"""C02 - signal quality never improves along a path; passive elements leave it unchanged.

Deviation-bounded (quick) / full-product (thorough) enumeration over (site graph, per-link chain, equipment library,
simulation parameters (Raman flag x NLI method), span power/gain mode, ROADM equalisation policy, launched spectrum) x
EVERY simple transceiver-to-transceiver path of the designed network; the real request.propagate runs under the
recorder and every element crossing is judged per channel on the noise-to-signal ratios a = ASE/S, n = NLI/S.
A second driver crosses single RamanFiber / Fiber elements with wide multi-band combs (channels below and above pumps).
"""
import itertools

from mc import engine
from checks import common as c

SPACE = {
    'graph': ['P2', 'P3', 'TRI'],
    'chain': ['F80', 'F80_E_F60', 'F40_U_F30', 'RF80', 'F200', 'E_F100_E', 'F0.5', 'Fneg70', 'Fnz90_E_Fneg40'],
    'roadm': ['library', 'detailed_xt'],
    'eq': ['test', 'example', 'openroadm5'],
    'sim': ['default', 'raman_gn', 'raman_ggn_approx3', 'ggn_sep', 'ggn_approx_all', 'raman_numerical', 'ggn_approx_inner'],
    'mode': ['power', 'gain'],
    'policy': ['pch', 'psd', 'psw'],
    'spectrum': ['uniform', 'two_mixed', 'five_mixed', 'edges', 'hot', 'one', 'steep'],
}
EQ_FILES = {'test': 'test', 'example': 'eqpt_config.json', 'openroadm5': 'eqpt_config_openroadm_ver5.json'}
SIMS = {
    'default': None,
    'raman_gn': {'raman_params': {'flag': True, 'method': 'perturbative', 'order': 2, 'result_spatial_resolution': 10e3,
                                  'solver_spatial_resolution': 1e3}},
    'raman_ggn_approx3': {'raman_params': {'flag': True, 'result_spatial_resolution': 10e3, 'solver_spatial_resolution': 1e3},
                          'nli_params': {'method': 'ggn_approx', 'computed_number_of_channels': 3}},
    'ggn_sep': {'raman_params': {'flag': True, 'result_spatial_resolution': 10e3, 'solver_spatial_resolution': 2e3},
                'nli_params': {'method': 'ggn_spectrally_separated', 'dispersion_tolerance': 1, 'phase_shift_tolerance': 0.1,
                               'computed_number_of_channels': 2}},
    'ggn_approx_all': {'nli_params': {'method': 'ggn_approx'}},
    # channels under test in the middle of the comb only: the others get their NLI from the nearest computed ones
    'ggn_approx_inner': {'nli_params': {'method': 'ggn_approx', 'computed_channels': [5, 6, 7]}},
    'raman_numerical': {'raman_params': {'flag': True, 'method': 'numerical', 'result_spatial_resolution': 10e3,
                                         'solver_spatial_resolution': 500.0}},
}
SPECTRA = dict(c.SPECTRA)
SPECTRA['steep'] = [dict(f=192.0e12 + i * 50e9, power_dbm=(0.0 if i < 6 else -25.0), dp=(0.0 if i < 6 else -12.0))
                    for i in range(9)]
PUMPS = [{'power': 0.224403, 'frequency': 205e12, 'propagation_direction': 'counterprop'},
         {'power': 0.231135, 'frequency': 201e12, 'propagation_direction': 'counterprop'}]
GRAPHS = {'P2': (['A', 'B'], [('A', 'B')]), 'P3': (['A', 'B', 'C'], [('A', 'B'), ('B', 'C')]),
          'TRI': (['A', 'B', 'C'], [('A', 'B'), ('B', 'C'), ('A', 'C')])}


def raman_fiber(length):
    return {'type': 'RamanFiber', 'type_variety': 'SSMF',
            'params': {'length': length, 'loss_coef': 0.2, 'length_units': 'km', 'att_in': 0, 'con_in': 0.5, 'con_out': 0.5},
            'operational': {'temperature': 283, 'raman_pumps': PUMPS}}


def chain(kind, eqname, k):
    user = {'test': 'std_low_gain', 'example': 'std_low_gain', 'openroadm5': 'openroadm_ila_standard'}[eqname]
    user2 = {'test': 'std_medium_gain', 'example': 'medium+low_gain', 'openroadm5': 'openroadm_ila_low_noise'}[eqname]
    if kind == 'F80':
        return [c.fiber(80 + 7 * k)]
    if kind == 'F80_E_F60':
        return [c.fiber(80), c.edfa(), c.fiber(60 + 5 * k, loss=0.22)]
    if kind == 'F40_U_F30':
        return [c.fiber(40), c.fused(1.0), c.fiber(30 + 5 * k)]
    if kind == 'RF80':
        return [raman_fiber(80), c.edfa()]
    if kind == 'F200':
        return [c.fiber(200)]
    if kind == 'E_F100_E':
        return [c.edfa(user, out_voa=1.0), c.fiber(100, att_in=1.0), c.edfa(user2, tilt_target=-1.0)]
    if kind == 'F0.5':
        return [c.fiber(0.5)]
    if kind == 'Fneg70':
        return [c.fiber(70, variety='NEG')]
    if kind == 'Fnz90_E_Fneg40':
        return [c.fiber(90, variety='NZ'), c.edfa(), c.fiber(40, variety='NEG')]
    raise ValueError(kind)


def library(case):
    eq = c.eqpt_json(EQ_FILES[case['eq']])
    if 'RamanFiber' not in eq:
        eq['RamanFiber'] = [dict(next(f for f in eq['Fiber'] if f['type_variety'] == 'SSMF'))]
    eq['Fiber'].append({'type_variety': 'NEG', 'dispersion': -0.4e-05, 'effective_area': 55e-12, 'pmd_coef': 2.5e-15})
    eq['Fiber'].append({'type_variety': 'NZ', 'dispersion': 0.45e-05, 'effective_area': 72e-12, 'pmd_coef': 2.5e-15})
    eq['Span'][0]['power_mode'] = case['mode'] == 'power'
    # ROADM policy: replace the equalisation key of every ROADM entry by the equivalent target
    for r in eq['Roadm']:
        dbm = r.pop('target_pch_out_db', None)
        psd = r.pop('target_psd_out_mWperGHz', None)
        psw = r.pop('target_out_mWperSlotWidth', None)
        if dbm is None:
            dbm = -20.0
        if case['policy'] == 'pch':
            r['target_pch_out_db'] = dbm
        elif case['policy'] == 'psd':
            r['target_psd_out_mWperGHz'] = 10 ** (dbm / 10) / 32.0
        else:
            r['target_out_mWperSlotWidth'] = 10 ** (dbm / 10) / 50.0
        if case.get('roadm') == 'detailed_xt':
            # detailed impairment profiles with every documented field filled in (crosstalk, noise figure, pmax ...)
            rng = {'lower-frequency': 186e12, 'upper-frequency': 200e12}
            full = {'roadm-pmd': 1e-12, 'roadm-cd': 0, 'roadm-pdl': 0.5, 'roadm-inband-crosstalk': -30, 'roadm-maxloss': 4,
                    'roadm-pmax': 2.5, 'roadm-osnr': 41, 'roadm-noise-figure': 23}
            r['roadm-path-impairments'] = [
                {'roadm-path-impairments-id': 0, 'roadm-express-path': [dict(full, **{'frequency-range': rng})]},
                {'roadm-path-impairments-id': 1, 'roadm-add-path': [dict(full, **{'frequency-range': rng})]},
                {'roadm-path-impairments-id': 2, 'roadm-drop-path': [dict(full, **{'frequency-range': rng})]}]
    return eq


def topology(case):
    sites, links = GRAPHS[case['graph']]
    ls = []
    for k, (a, b) in enumerate(links):
        kind = case['chain'] if k == 0 else ['F80', 'F80_E_F60', 'F40_U_F30'][k % 3]
        ls.append((a, b, chain(kind, case['eq'], k), chain(kind if k else 'F80', case['eq'], k + 1)))
    return c.build_topology(sites, ls)


def judge_step(st, viol, where):
    """one recorded element crossing, per channel keyed by frequency"""
    import numpy as np
    pre, post, cls = st['pre'], st['post'], st['cls']
    idx = {f: i for i, f in enumerate(pre['f'])}
    if any(f not in idx for f in post['f']):
        viol.append(dict(fingerprint='new-channel-appeared', what=f'{where}: output has channels not in the input'))
        return set()
    sel = np.array([idx[f] for f in post['f']], dtype=int)
    kinds = set()
    with np.errstate(divide='ignore', invalid='ignore'):
        a0, n0 = pre['ar'][sel] / pre['sr'][sel], pre['nr'][sel] / pre['sr'][sel]
        a1, n1 = post['ar'] / post['sr'], post['nr'] / post['sr']
    if cls in ('Roadm', 'Fused', 'Transceiver'):
        for k in ('sr', 'ar', 'nr'):
            if not np.array_equal(pre[k][sel], post[k]):
                viol.append(dict(fingerprint=f'passive-element-changed-quality:{cls}', what=f'{where}: {k} shares changed by a '
                                 f'{cls}: {pre[k][sel][:3].tolist()} -> {post[k][:3].tolist()}'))
                break
        kinds.add('passive-equal')
        return kinds
    slack = 1e-12

    def dec(x0, x1):
        return bool((x1 < x0 * (1 - slack) - 1e-300).any())
    if dec(a0, a1) or dec(n0, n1) or dec(a0 + n0, a1 + n1):
        i = int(np.argmax(np.maximum((a0 - a1) / np.maximum(a0, 1e-300), (n0 - n1) / np.maximum(n0, 1e-300))))
        viol.append(dict(fingerprint=f'quality-improved:{cls}',
                         what=f'{where}: channel {post["f"][i] / 1e12:.4f} THz ASE/S {a0[i]:.6e}->{a1[i]:.6e}, NLI/S '
                              f'{n0[i]:.6e}->{n1[i]:.6e} across a {cls}'))
    if cls in ('Edfa', 'Multiband_amplifier'):
        if not np.allclose(n1, n0, rtol=1e-9, atol=0):
            viol.append(dict(fingerprint='amplifier-changed-snr-nli', what=f'{where}: NLI/S changed across an amplifier: '
                             f'{n0[:3].tolist()} -> {n1[:3].tolist()}'))
        if (a1 > a0).any():
            kinds.add('amp-raised-ase')
    elif cls == 'Fiber':
        if not np.allclose(a1, a0, rtol=1e-9, atol=0):
            viol.append(dict(fingerprint='fibre-changed-osnr-ase', what=f'{where}: ASE/S changed across a non-Raman fibre: '
                             f'{a0[:3].tolist()} -> {a1[:3].tolist()}'))
        if (n1 > n0).any():
            kinds.add('fibre-raised-nli')
    elif cls == 'RamanFiber':
        if (a1 > a0).any():
            kinds.add('raman-raised-ase')
        if (n1 > n0).any():
            kinds.add('raman-raised-nli')
    return kinds


def run_net(case):
    from gnpy.core.exceptions import ConfigurationError, NetworkTopologyError, EquipmentConfigError, SpectrumError
    viol = []
    sim = SIMS[case['sim']]
    spec = SPECTRA[case['spectrum']]
    if case['sim'] == 'ggn_sep' and (spec is None or len(spec) > 9):
        return {'status': 'rejected', 'tags': {'skipped:ggn_sep-on-wide-comb': 1}}
    if case['sim'] in ('raman_ggn_approx3', 'ggn_sep') and spec is not None and len(spec) < 3:
        return {'status': 'rejected', 'tags': {'skipped:computed-channels>comb': 1}}
    if case['sim'] in ('ggn_approx_all',) and spec is not None and len(spec) < 2:
        # the GGN methods fit beta2 over the comb and are not defined for a one-channel comb (see DESIGN.md, out of scope)
        return {'status': 'rejected', 'tags': {'skipped:ggn-one-channel': 1}}
    if case['chain'] == 'RF80' and not (sim or {}).get('raman_params', {}).get('flag'):
        # a RamanFiber needs the Raman computation switched on (the CLI refuses this combination)
        return {'status': 'rejected', 'tags': {'skipped:raman-fibre-without-raman-flag': 1}}
    try:
        net, equipment, _, _ = c.design(topology(case), library(case), sim=sim)
    except (ConfigurationError, NetworkTopologyError, EquipmentConfigError) as exc:
        c.set_sim_params({})
        return {'status': 'rejected', 'tags': {f'design-rejected:{type(exc).__name__}': 1}}
    transitions = 0
    traces = 0
    kinds = set()
    try:
        c.set_sim_params(sim)
        for path in c.all_simple_trx_paths(net):
            req = c.make_request(equipment, path[0].uid, path[-1].uid, spectrum=spec)
            try:
                pth, si, rec = c.propagate_recorded(path, req, equipment)
            except (SpectrumError, ValueError) as exc:
                if 'does not match amplifiers band' in str(exc) or isinstance(exc, SpectrumError):
                    continue
                raise
            ok = True
            for st in rec.steps:
                transitions += 1
                n0 = len(viol)
                kinds |= judge_step(st, viol, f'{st["cls"]} {st["uid"]} on path {path[0].uid}->{path[-1].uid}')
                ok = ok and len(viol) == n0
            traces += ok
            if len(viol) > 6:
                break
    finally:
        c.set_sim_params({})
    for v in viol:
        v['case'] = case
    return {'violations': viol[:6], 'transitions': transitions, 'traces': traces,
            'nontrivial': {'passive-equal', 'amp-raised-ase', 'fibre-raised-nli'} <= kinds or 'raman-raised-ase' in kinds,
            'tags': {k: 1 for k in kinds}, 'outcomes': [case['eq'] + '/' + case['sim']],
            'sample': case}


# ---- element-level driver: wide multi-band combs over single fibres --------------------------------------------------------
WIDE = {
    'LCS': [186.5e12 + i * 1.5e12 for i in range(12)],        # 186.5 .. 203 THz: channels below and above the pumps
    'C': [191.5e12 + i * 0.5e12 for i in range(9)],
    'S_only': [197e12 + i * 1e12 for i in range(7)],
    # 12-channel combs (same count as LCS) entirely below the pumps / straddling them: crossed one after the other on the
    # same fibre object
    'C12': [191.5e12 + i * 0.4e12 for i in range(12)],
    'S12': [196.5e12 + i * 0.6e12 for i in range(12)],
}
PUMP_SETS = {
    'std': PUMPS,
    'LC': [{'power': 0.25, 'frequency': 200e12, 'propagation_direction': 'counterprop'},
           {'power': 0.2, 'frequency': 198e12, 'propagation_direction': 'counterprop'}],
    'co': [{'power': 0.15, 'frequency': 199e12, 'propagation_direction': 'coprop'},
           {'power': 0.2, 'frequency': 204e12, 'propagation_direction': 'counterprop'}],
    'none': [],
}


def run_element(case):
    import numpy as np
    from gnpy.core.info import create_arbitrary_spectral_information
    viol = []
    eq = c.eqpt_json('test')
    eq['RamanFiber'] = [dict(eq['Fiber'][0])]
    el = raman_fiber(case['length'])
    el['operational']['raman_pumps'] = PUMP_SETS[case['pumps']]
    if case['pumps'] == 'none' and case['kind_el'] == 'Fiber':
        el = c.fiber(case['length'], con_in=0.5, con_out=0.5)
    equipment = c.make_equipment(eq)
    net = c.load_network(c.build_topology(['A', 'B'], [('A', 'B', [el], None)]), equipment)
    fib = next(n for n in net.nodes() if n.uid.startswith('A>B:0'))
    fib.ref_pch_in_dbm = 0.0
    from gnpy.core.info import SpectralInformation
    kinds = set()
    # 'before': combs crossed earlier on the same fibre object (a fibre is used for many propagations)
    for step, comb_name in enumerate(list(case.get('before', [])) + [case['comb']]):
        f = np.array(WIDE[comb_name])
        n = len(f)
        sr, ar, nr = (np.full(n, 0.97), np.full(n, 0.02), np.full(n, 0.01)) if case['noisy'] else \
            (np.ones(n), np.zeros(n), np.zeros(n))
        si = SpectralInformation(frequency=f, baud_rate=np.full(n, 64e9), slot_width=np.full(n, 100e9),
                                 pch=np.full(n, 1e-3 * 10 ** (case['level'] / 10)), signal_ratio=sr, ase_ratio=ar, nli_ratio=nr,
                                 roll_off=np.full(n, 0.1), chromatic_dispersion=np.zeros(n), pmd=np.zeros(n), pdl=np.zeros(n),
                                 latency=np.zeros(n), delta_pdb_per_channel=np.zeros(n), tx_osnr=np.full(n, 40.0),
                                 tx_power=np.full(n, 1e-3), label=np.full(n, 'x'))
        c.set_sim_params(SIMS[case['sim']])
        try:
            pre = c.snap(si)
            out = fib(si)
            post = c.snap(out)
        finally:
            c.set_sim_params({})
        kinds |= set(judge_step({'pre': pre, 'post': post, 'cls': type(fib).__name__}, viol,
                                f'{type(fib).__name__} crossing {step + 1} (comb {comb_name}) of {case}'))
    for v in viol:
        v['case'] = case
    return {'violations': viol, 'transitions': 1 + len(case.get('before', [])), 'traces': 0 if viol else 1, 'nontrivial': True,
            'tags': dict({k: 1 for k in kinds}, **{'element-driver': 1, 'element-history': int(bool(case.get('before')))}),
            'sample': case}


AMP_LIBS = {'test': 'test', 'example': 'eqpt_config.json', 'openroadm4': 'eqpt_config_openroadm_ver4.json',
            'openroadm5': 'eqpt_config_openroadm_ver5.json'}
AMP_GAINS = [0.0, 2.0, 4.0, 8.0, 'min', 'flatmax']


def amp_models():
    out = []
    for lib, fn in AMP_LIBS.items():
        try:
            eq = c.eqpt_json(fn)
        except Exception:  # noqa
            continue
        for e in eq['Edfa']:
            if e.get('type_def') != 'multi_band':
                out.append((lib, e['type_variety']))
    return out


def run_amp(case):
    """one amplifier of a shipped library, operator-set gain (down to 0 dB), one crossing: the amplifier never removes noise
    (added ASE >= 0 on every channel) and leaves NLI/S unchanged"""
    import numpy as np
    from gnpy.core.exceptions import ConfigurationError, EquipmentConfigError
    eq = c.eqpt_json(AMP_LIBS[case['lib']])
    ent = next(e for e in eq['Edfa'] if e['type_variety'] == case['model'])
    g = case['gain']
    if g == 'min':
        g = ent.get('gain_min', 10)
    elif g == 'flatmax':
        g = ent.get('gain_flatmax', 20)
    topo = c.build_topology(['A', 'B'], [('A', 'B', [c.edfa(case['model'], gain_target=float(g), tilt_target=0.0, out_voa=0.0),
                                                    c.fiber(80), c.edfa()], [c.fiber(80)])])
    try:
        equipment = c.make_equipment(eq)
        net = c.load_network(topo, equipment)
    except (ConfigurationError, EquipmentConfigError):
        return {'status': 'rejected', 'tags': {'amp-build-rejected': 1}}
    amp = c.node(net, 'A>B:0:Edfa')
    from gnpy.core.info import create_arbitrary_spectral_information
    n = 8
    f = np.array([193.0e12 + i * 100e9 for i in range(n)])
    lvl = case['level']
    si = create_arbitrary_spectral_information(frequency=f, pch=1e-3 * 10 ** (np.full(n, lvl) / 10), baud_rate=np.full(n, 32e9),
                                               slot_width=np.full(n, 50e9), tx_osnr=40.0, tx_power=1e-3, roll_off=0.15, label='a')
    if case['noisy']:
        si.add_ase(np.full(n, 1e-3 * 10 ** (lvl / 10) * 1e-3))
        si.add_nli(np.full(n, 1e-3 * 10 ** (lvl / 10) * 5e-4))
    amp.ref_pch_in_dbm = lvl
    pre = c.snap(si)
    try:
        out = amp(si)
    except Exception as exc:  # noqa
        return {'violations': [dict(fingerprint=f'amplifier-raised:{type(exc).__name__}', what=f'{case}: {str(exc)[:160]}', case=case)],
                'transitions': 1}
    post = c.snap(out)
    viol = []
    if len(post['f']) == len(pre['f']):
        a0, a1 = pre['ar'] / pre['sr'], post['ar'] / post['sr']
        n0, n1 = pre['nr'] / pre['sr'], post['nr'] / post['sr']
        if (a1 < a0 * (1 - 1e-12) - 1e-300).any():
            i = int(np.argmax(a0 - a1))
            viol.append(dict(fingerprint='quality-improved:Edfa', what=f'{case["model"]} ({case["lib"]}) at gain {g} dB, input '
                             f'{lvl} dBm/ch: ASE/S of channel {i} goes {a0[i]!r} -> {a1[i]!r} (the amplifier removed noise)', case=case))
        if not np.allclose(n1, n0, rtol=1e-9, atol=0):
            viol.append(dict(fingerprint='amplifier-changed-nli-share', what=f'{case["model"]} at gain {g} dB: NLI/S {n0[:2]} -> {n1[:2]}',
                             case=case))
    return {'violations': viol, 'transitions': 1, 'traces': 0 if viol else 1, 'nontrivial': True,
            'tags': {'single-amplifier': 1, 'low-gain-amplifier': int(float(g) < 5)}, 'sample': case}


def run_case(case):
    if case['kind'] == 'amp':
        return run_amp(case)
    return run_element(case) if case['kind'] == 'element' else run_net(case)


def main(rep, tier, seed):
    sp = engine.Space(SPACE, constraint=lambda x: not (x['sim'] == 'ggn_approx_inner' and
                                                       x['spectrum'] not in ('uniform', 'hot', 'steep')),
                      bases=[{}, {'chain': 'RF80', 'eq': 'example', 'sim': 'raman_gn', 'spectrum': 'five_mixed'},
                                    {'graph': 'P3', 'chain': 'E_F100_E', 'eq': 'openroadm5', 'spectrum': 'hot'},
                                    {'graph': 'TRI', 'chain': 'F40_U_F30', 'mode': 'gain', 'policy': 'psd', 'spectrum': 'two_mixed'}])
    if tier == 'quick':
        bases = engine.pick_bases(sp.bases, seed, tier, n_quick=2)
        cases = [dict(kind='net', **{k: x[k] for k in SPACE}) for x in sp.enumerate(2, bases=bases)]
        bound = f'<= 2 deviations from base points {bases}'
    else:
        cases = [dict(kind='net', **x) for x in sp.full()]
        bound = 'full product of the configuration space'
    for comb, pumps, level, noisy, sim, length in itertools.product(WIDE, PUMP_SETS, [-20.0, 0.0], [False, True],
                                                                    ['raman_gn', 'raman_numerical'], [80.0, 40.0]):
        cases.append(dict(kind='element', comb=comb, pumps=pumps, level=level, noisy=noisy, sim=sim, length=length,
                          kind_el='RamanFiber'))
    n_hist = 0
    for a, b in itertools.permutations(['LCS', 'C12', 'S12'], 2):
        for pumps, sim in itertools.product(['std', 'LC', 'co'], ['raman_gn', 'raman_numerical']):
            cases.append(dict(kind='element', comb=b, before=[a], pumps=pumps, level=0.0, noisy=False, sim=sim, length=80.0,
                              kind_el='RamanFiber'))
            n_hist += 1
    n_amp = 0
    for lib, model in amp_models():
        for g in AMP_GAINS:
            for level, noisy in ((-20.0, False), (0.0, True)):
                cases.append(dict(kind='amp', lib=lib, model=model, gain=g, level=level, noisy=noisy))
                n_amp += 1
    results, stats = engine.run_pool('checks.c02', cases, horizon=900)
    rep.absorb(results)
    rep.cov['bound'] = bound + f' over {list(SPACE)}; every simple trx-to-trx path of each designed network; + {3 * 4 * 2 * 2 * 2 * 2} ' \
        'single-fibre crossings with wide multi-band combs x pump sets; + ' + str(n_hist) + ' two-comb histories on one RamanFiber object; + ' \
        + str(n_amp) + ' single crossings of every amplifier model of the test / example / OpenROADM v4 / v5 libraries at operator gains 0, 2, 4, 8 dB, gain_min, flatmax'
    rep.cov['space_size'] = len(cases)
    rep.cov['exhaustive'] = not stats['budget_hit'] and len(results) == len(cases)
    rep.cov['rule'] = ('a case = one designed network (real designed_network) and the real request.propagate over every simple '
                       'transceiver-to-transceiver path, recorded per element; transitions = element crossings judged; per '
                       'channel ASE/S, NLI/S and their sum non-decreasing, passive elements bitwise unchanged, amplifier keeps '
                       'NLI/S, plain fibre keeps ASE/S. Non-trivial: a path where passive, amplifier and fibre classes were all '
                       'observed acting, or a Raman fibre adding ASE.')
    rep.assumptions += ['recorder wraps element __call__ in the harness process', 'ggn_spectrally_separated only on combs <= 9 channels']
    rep.require(rep.tags.get('low-gain-amplifier', 0) >= 20, 'low-gain single-amplifier crossings did not run')
    for k in ('passive-equal', 'amp-raised-ase', 'fibre-raised-nli', 'raman-raised-ase'):
        rep.require(rep.tags.get(k, 0) >= 1, f'element class behaviour {k} never observed')
