"""C05 - fibre spans apply exactly their loss budget and accumulate CD, PMD, PDL, latency.

(a) single fibres, Raman off: complete product over length x loss (scalar / per-frequency table in ascending or
    descending order) x lumped losses x att_in x connectors x comb; out/in == loss budget from the input document.
(b) paths of 2-4 distinct spans interleaved with amplifiers (pmd/pdl != 0) and ROADMs, in EVERY order of the span list:
    totals == sums computed from the input documents; identical for every permutation.
(c) Raman on: low-power limit == loss budget, perturbative vs numerical, each lumped loss once, counter-propagating
    pumps only add gain; over solver settings x lumped-loss position sets x pump sets x input levels.
"""
import itertools
import math

from mc import engine
from checks import common as c

N1 = 1.468
C0 = 299792458.0


# ---- (a) ------------------------------------------------------------------------------------------------------------
A_SPACE = {
    'length': [80.0, 0.05, 10.0, 150.0],
    'loss': ['0.2', '0.17', 'table_asc', 'table_desc', 'table_2pt'],
    'lumped': ['none', 'one', 'two', 'two_close', 'two_unsorted'],
    'att_in': [0.0, 1.5],
    'con_in': [0.0, 0.5],
    'con_out': [0.0, 0.3],
    'comb': ['mixed5', 'one', 'edges3'],
}
TABLES = {
    'table_asc': ([186e12, 191e12, 193.4e12, 198e12, 210e12], [0.24, 0.21, 0.2, 0.22, 0.3]),
    'table_desc': ([210e12, 198e12, 193.4e12, 191e12, 186e12], [0.3, 0.22, 0.2, 0.21, 0.24]),
    'table_2pt': ([190e12, 197e12], [0.19, 0.23]),
}
COMBS = {
    'mixed5': dict(f=[192.0e12, 192.05e12, 192.1125e12, 194.0e12, 195.9e12], baud=[32e9, 32e9, 64e9, 32e9, 16e9],
                   slot=[50e9, 50e9, 75e9, 50e9, 25e9], p=[0.0, -3.0, 2.0, -10.0, 1.0]),
    'one': dict(f=[193.5e12], baud=[32e9], slot=[50e9], p=[0.0]),
    'edges3': dict(f=[191.4e12, 193.4e12, 196.0e12], baud=[32e9] * 3, slot=[50e9] * 3, p=[0.0, 0.0, 0.0]),
}


def lumped(kind, length):
    if kind == 'none' or length < 1:
        return []
    if kind == 'one':
        return [{'position': round(length * 0.25, 3), 'loss': 1.0}]
    if kind == 'two':
        return [{'position': round(length * 0.25, 3), 'loss': 1.0}, {'position': round(length * 0.5, 3), 'loss': 0.7}]
    if kind == 'two_unsorted':      # listed in another order than their positions
        return [{'position': round(length * 0.5, 3), 'loss': 0.7}, {'position': round(length * 0.25, 3), 'loss': 1.0}]
    return [{'position': round(length * 0.5, 3), 'loss': 0.4}, {'position': round(length * 0.5 + 0.001, 3), 'loss': 0.8}]


def loss_param(loss):
    if loss in TABLES:
        fr, val = TABLES[loss]
        return None, {'frequency': list(fr), 'value': list(val)}
    return float(loss), None


def alpha_db_per_km(loss, f):
    if loss in TABLES:
        fr, val = TABLES[loss]
        pts = sorted(zip(fr, val))
        for (f0, v0), (f1, v1) in zip(pts, pts[1:]):
            if f0 <= f <= f1:
                return v0 + (v1 - v0) * (f - f0) / (f1 - f0)
        raise ValueError('frequency outside the table')
    return float(loss)


def fibre_el(fc, typ='Fiber', operational=None):
    lc, table = loss_param(fc['loss'])
    p = {'length': fc['length'], 'length_units': 'km', 'att_in': fc['att_in'], 'con_in': fc['con_in'],
         'con_out': fc['con_out']}
    p['loss_coef'] = table if table is not None else lc
    ll = lumped(fc['lumped'], fc['length'])
    if ll:
        p['lumped_losses'] = ll
    e = {'type': typ, 'type_variety': 'SSMF', 'params': p}
    if operational:
        e['operational'] = operational
    return e


def make_si(cb, level=0.0):
    import numpy as np
    from gnpy.core.info import create_arbitrary_spectral_information
    return create_arbitrary_spectral_information(
        frequency=np.array(cb['f']), pch=1e-3 * 10 ** ((np.array(cb['p']) + level) / 10), baud_rate=np.array(cb['baud']),
        slot_width=np.array(cb['slot']), tx_osnr=40.0, tx_power=1e-3, roll_off=0.1, label='x')


def library():
    eq = c.eqpt_json('test')
    eq['RamanFiber'] = [dict(eq['Fiber'][0])]
    eq['Fiber'].append({'type_variety': 'NZDSF', 'dispersion': 0.5e-05, 'effective_area': 72e-12, 'pmd_coef': 2.5e-15})
    eq['Fiber'].append({'type_variety': 'SLOPE', 'dispersion': 1.67e-05, 'dispersion_slope': 60.0, 'effective_area': 83e-12,
                        'pmd_coef': 0.9e-15})
    for e in eq['Edfa']:
        if e['type_variety'] == 'std_medium_gain':
            e['pmd'], e['pdl'] = 3e-12, 0.7
        if e['type_variety'] == 'std_low_gain':
            e['pmd'], e['pdl'] = 1e-12, 0.3
    return eq


def single_fibre(fc, typ='Fiber', operational=None):
    equipment = c.make_equipment(library())
    topo = c.build_topology(['A', 'B'], [('A', 'B', [fibre_el(fc, typ, operational)], None)])
    net = c.load_network(topo, equipment)
    fib = c.node(net, f'A>B:0:{typ}')
    fib.ref_pch_in_dbm = 0.0
    return fib


def budget_db(fc, f):
    ll = lumped(fc['lumped'], fc['length'])
    return fc['att_in'] + fc['con_in'] + fc['length'] * alpha_db_per_km(fc['loss'], f) + sum(x['loss'] for x in ll) + fc['con_out']


def run_single(case):
    import numpy as np
    from gnpy.core.exceptions import NetworkTopologyError, ParametersError
    c.set_sim_params({'raman_params': {'flag': False}})
    fc = case['fibre']
    viol = []
    try:
        fib = single_fibre(fc)
    except (NetworkTopologyError, ParametersError) as exc:
        return {'status': 'rejected', 'tags': {'fibre-rejected': 1}}
    cb = COMBS[fc['comb']]
    # the fibre object first carries another comb of the same size at other frequencies (a fibre is crossed many times)
    warm = dict(cb, f=[191.35e12 + 196.05e12 - x for x in cb['f']][::-1], baud=cb['baud'][::-1], slot=cb['slot'][::-1],
                p=[x - 2.0 for x in cb['p']][::-1])
    fib(make_si(warm))
    si = make_si(cb)
    pre = c.snap(si)
    out = fib(si)
    post = c.snap(out)
    exp_db = np.array([budget_db(fc, f) for f in pre['f']])
    got_db = 10 * np.log10(pre['pch'] / post['pch'])
    where = f'fibre {fc}'
    if not np.allclose(got_db, exp_db, rtol=0, atol=1e-9):
        i = int(np.argmax(np.abs(got_db - exp_db)))
        viol.append(dict(fingerprint='loss-budget' + (':per-frequency-table' if fc['loss'] in TABLES else '') +
                         (':lumped' if lumped(fc['lumped'], fc['length']) else ''),
                         what=f'{where}: channel {pre["f"][i] / 1e12:.3f} THz attenuated by {got_db[i]:.6f} dB, loss budget is '
                              f'{exp_db[i]:.6f} dB', observed=got_db.tolist(), expected=exp_db.tolist()))
    # plain-fibre accumulation formulas
    L = fc['length'] * 1e3
    if not np.allclose(post['lat'] - pre['lat'], L * N1 / C0, rtol=1e-12):
        viol.append(dict(fingerprint='latency', what=f'{where}: latency {post["lat"][0]!r} != L n / c'))
    if not np.allclose(post['pmd'], 1.265e-15 * math.sqrt(L), rtol=1e-12):
        viol.append(dict(fingerprint='pmd-single', what=f'{where}: PMD {post["pmd"][0]!r} != pmd_coef sqrt(L)'))
    if not np.allclose(post['cd'], 1.67e-5 * L, rtol=1e-9):
        viol.append(dict(fingerprint='cd-single', what=f'{where}: CD {post["cd"].tolist()} != D L = {1.67e-5 * L}'))
    for x in viol:
        x['case'] = case
    return {'violations': viol, 'transitions': 1, 'traces': 0 if viol else 1,
            'nontrivial': fc['loss'] in TABLES or bool(lumped(fc['lumped'], fc['length'])) or fc['att_in'] > 0,
            'tags': {'single': 1}, 'sample': case}


# ---- (b) ------------------------------------------------------------------------------------------------------------
SPANS = {
    's80': dict(length=80.0, variety='SSMF', loss=0.2, pmd=None),
    's60n': dict(length=60.0, variety='NZDSF', loss=0.22, pmd=None),
    's100p': dict(length=100.0, variety='SSMF', loss=0.19, pmd=3e-15),
    's40s': dict(length=40.0, variety='SLOPE', loss=0.21, pmd=None),
    's120': dict(length=120.0, variety='SSMF', loss=0.2, pmd=None),
}
SPAN_SETS = [['s80', 's60n'], ['s80', 's60n', 's100p'], ['s80', 's60n', 's100p', 's120'], ['s40s', 's80', 's60n'],
             ['s100p', 's100p', 's60n'], ['s40s', 's100p', 's60n', 's120']]
SPAN_SETS_DEEP = [['s40s', 's80', 's60n', 's100p', 's120'], ['s100p', 's40s', 's100p', 's60n', 's40s']]
LIB_D = {'SSMF': 1.67e-5, 'NZDSF': 0.5e-5}
LIB_PMD = {'SSMF': 1.265e-15, 'NZDSF': 2.5e-15, 'SLOPE': 0.9e-15}
AMP_PMDPDL = {'std_medium_gain': (3e-12, 0.7), 'std_low_gain': (1e-12, 0.3)}
ROADM_PMDPDL = (1e-12, 0.5)      # 'example_test' roadm of the vendored library


def span_el(name, i):
    s = SPANS[name]
    p = {'length': s['length'], 'length_units': 'km', 'loss_coef': s['loss'], 'att_in': 0.0, 'con_in': 0.25, 'con_out': 0.25}
    if s['pmd'] is not None:
        p['pmd_coef'] = s['pmd']
    if s['variety'] == 'SLOPE':
        p['dispersion_slope'] = 60.0
    return {'type': 'Fiber', 'type_variety': s['variety'], 'params': p, 'uid': f'span{i}:{name}'}


def path_topology(order, amps):
    chain = [dict(c.edfa(amps[0]), uid='boost')]
    for i, nm in enumerate(order):
        chain.append(span_el(nm, i))
        chain.append(dict(c.edfa(amps[(i + 1) % len(amps)]), uid=f'amp{i}'))
    back = [c.fiber(50)]
    rp = {s: {'type_variety': 'example_test'} for s in 'AB'}
    return c.build_topology(['A', 'B'], [('A', 'B', chain, back)], roadm_params=rp)


def run_path(case):
    import numpy as np
    c.set_sim_params({'raman_params': {'flag': False}})
    viol = []
    names = case['spans']
    amps = case['amps']
    totals = {}
    alone = {}
    transitions = 0
    n_perm = 0
    for order in sorted(set(itertools.permutations(names))):
        n_perm += 1
        topo = path_topology(order, amps)
        try:
            net, equipment, _, _ = c.design(topo, library())
        except Exception as exc:  # noqa
            viol.append(dict(fingerprint=f'path-design-raised:{type(exc).__name__}', what=str(exc)[:200]))
            break
        path = next(p for p in c.all_simple_trx_paths(net) if p[0].uid == 'trx A' and p[-1].uid == 'trx B')
        req = c.make_request(equipment, 'trx A', 'trx B', spectrum=[dict(f=f, baud=b, slot=s) for f, b, s in
                                                                    zip(COMBS['mixed5']['f'], COMBS['mixed5']['baud'],
                                                                        COMBS['mixed5']['slot'])])
        pth, si, rec = c.propagate_recorded(path, req, equipment)
        last = rec.steps[-1]['post']
        transitions += len(rec.steps)
        totals[order] = {k: last[k].copy() for k in ('cd', 'pmd', 'pdl', 'lat')}
        # expected from the input documents
        n_amp = len(order) + 1
        amp_seq = [amps[0]] + [amps[(i + 1) % len(amps)] for i in range(len(order))]
        pmd2 = sum(AMP_PMDPDL[a][0] ** 2 for a in amp_seq) + 2 * ROADM_PMDPDL[0] ** 2
        pdl2 = sum(AMP_PMDPDL[a][1] ** 2 for a in amp_seq) + 2 * ROADM_PMDPDL[1] ** 2
        lat = 0.0
        cd = 0.0
        cd_judged = True
        for nm in order:
            s = SPANS[nm]
            L = s['length'] * 1e3
            coef = s['pmd'] if s['pmd'] is not None else LIB_PMD[s['variety']]
            pmd2 += coef ** 2 * L
            lat += L * N1 / C0
            if s['variety'] in LIB_D:
                cd += LIB_D[s['variety']] * L
            else:
                cd_judged = False
        where = f'spans in order {order} with amplifiers {amp_seq}'
        if not np.allclose(last['lat'], lat, rtol=1e-12):
            viol.append(dict(fingerprint='path-latency', what=f'{where}: latency {last["lat"][0]!r} expected {lat!r}'))
        if not np.allclose(last['pmd'], math.sqrt(pmd2), rtol=1e-9):
            viol.append(dict(fingerprint='path-pmd-not-quadrature', what=f'{where}: PMD {last["pmd"][0]!r} expected '
                             f'sqrt(sum of squares) = {math.sqrt(pmd2)!r}'))
        if not np.allclose(last['pdl'], math.sqrt(pdl2), rtol=1e-9):
            viol.append(dict(fingerprint='path-pdl-not-quadrature', what=f'{where}: PDL {last["pdl"][0]!r} expected '
                             f'{math.sqrt(pdl2)!r}'))
        if cd_judged and not np.allclose(last['cd'], cd, rtol=1e-9):
            viol.append(dict(fingerprint='path-cd-not-linear', what=f'{where}: CD {last["cd"][0]!r} expected sum D L = {cd!r}'))
        # differential: each fibre alone on a clean spectrum
        for st in rec.steps:
            if st['cls'] == 'Fiber' and st['uid'].startswith('span'):
                d_cd = st['post']['cd'] - st['pre']['cd']
                key = st['uid'].split(':')[1]
                if key in alone and not np.allclose(alone[key], d_cd, rtol=1e-9, atol=1e-18):
                    viol.append(dict(fingerprint='span-cd-depends-on-position', what=f'{where}: CD contribution of {key} '
                                     f'differs from its contribution in another order'))
                alone.setdefault(key, d_cd)
        if viol:
            break
    if not viol and len(totals) > 1:
        ref = next(iter(totals.values()))
        for order, t in totals.items():
            for k in ref:
                if not np.allclose(t[k], ref[k], rtol=1e-9, atol=1e-24):
                    viol.append(dict(fingerprint=f'order-dependence:{k}', what=f'{k} total differs between span orders: '
                                     f'{order}: {t[k][0]!r} vs {ref[k][0]!r}'))
                    break
    for x in viol:
        x['case'] = case
    return {'violations': viol[:6], 'transitions': transitions, 'traces': 0 if viol else n_perm, 'nontrivial': n_perm >= 2,
            'tags': {'path-sets': 1, 'orders': n_perm}, 'sample': case}


# ---- (b2) multi-band paths: per-band amplifier PMD/PDL stay attached to the channels of their band ------------------------
MB_PMDPDL = {'std_low_gain': (1e-12, 0.3), 'std_low_gain_L': (2e-12, 0.9), 'std_low_gain_S': (1.5e-12, 0.6),
             'wide_LC': (0.5e-12, 0.2), 'wide_LCS': (0.5e-12, 0.2), 'std_low_gain_reduced_band': (1e-12, 0.4)}


def run_mbpath(case):
    """multi-band line systems whose band amplifiers have different PMD/PDL, declared in both frequency orders: every element
    adds its own contribution in quadrature to the channels it carries; CD and latency only change in fibres"""
    import numpy as np
    from checks import c07
    c.set_sim_params({'raman_params': {'flag': False}})
    viol = []
    eq = c07.library()
    for e in eq['Edfa']:
        if e['type_variety'] in MB_PMDPDL:
            e['pmd'], e['pdl'] = MB_PMDPDL[e['type_variety']]
    topo = c07.network(case['net'])
    if case['declared'] == 'ascending':
        for el in topo['elements']:
            if el.get('type') == 'Multiband_amplifier' and 'amplifiers' in el:
                el['amplifiers'] = el['amplifiers'][::-1]
        for e in eq['Edfa']:
            if e.get('type_def') == 'multi_band':
                e['amplifiers'] = e['amplifiers'][::-1]
    net, equipment, _, _ = c.design(topo, eq)
    transitions = 0
    traces = 0
    for path in c.all_simple_trx_paths(net):
        common, _ = c07.path_common_bands(path)
        spec = []
        for k, (lo, hi) in enumerate(common):
            for i in range(2 + k):
                spec.append(dict(f=lo + 100e9 + i * 150e9, baud=32e9, slot=50e9, power_dbm=-1.0 * i, label=f'b{k}'))
        spec.sort(key=lambda x: x['f'])
        req = c.make_request(equipment, path[0].uid, path[-1].uid, spectrum=spec)
        where0 = f'net {case["net"]} (band amplifiers declared in {case["declared"]} frequency order) {path[0].uid}->{path[-1].uid}'
        try:
            pth, si, rec = c.propagate_recorded(path, req, equipment)
        except Exception as exc:  # noqa
            viol.append(dict(fingerprint=f'mbpath-raised:{type(exc).__name__}', what=f'{where0}: {str(exc)[:200]}'))
            continue
        ok = True
        for st in rec.steps:
            transitions += 1
            pre, post = st['pre'], st['post']
            where = f'{where0}: {st["cls"]} {st["uid"]}'
            if len(pre['f']) != len(post['f']) or not np.array_equal(pre['f'], post['f']):
                viol.append(dict(fingerprint='mbpath-channel-set', what=f'{where}: channel set / order changed'))
                ok = False
                break
            d_pmd = post['pmd'] ** 2 - pre['pmd'] ** 2
            d_pdl = post['pdl'] ** 2 - pre['pdl'] ** 2
            if st['cls'] in ('Edfa', 'Multiband_amplifier'):
                el = st['el']
                amps = list(el.amplifiers.values()) if st['cls'] == 'Multiband_amplifier' else [el]
                exp_pmd, exp_pdl = [], []
                for f in pre['f']:
                    a = next((x for x in amps if x.params.f_min <= f <= x.params.f_max), None)
                    x = MB_PMDPDL.get(a.params.type_variety, (0.0, 0.0)) if a is not None else (0.0, 0.0)
                    exp_pmd.append(x[0] ** 2)
                    exp_pdl.append(x[1] ** 2)
                if not np.allclose(d_pmd, exp_pmd, rtol=1e-6, atol=1e-30) or not np.allclose(d_pdl, exp_pdl, rtol=1e-6, atol=1e-12):
                    viol.append(dict(fingerprint='band-amplifier-pmd-pdl-on-wrong-channels',
                                     what=f'{where}: per-channel PDL^2 increase {d_pdl.tolist()} expected {exp_pdl}; PMD^2 increase '
                                          f'{d_pmd.tolist()} expected {exp_pmd} (channels {[round(x / 1e12, 3) for x in pre["f"]]} THz)'))
                    ok = False
                if not np.array_equal(pre['cd'], post['cd']) or not np.array_equal(pre['lat'], post['lat']):
                    viol.append(dict(fingerprint='amplifier-changed-cd-or-latency', what=where))
                    ok = False
            else:
                # fibres, fused, ROADMs (no per-band profile here), transceivers: the same contribution on every channel
                if not np.allclose(d_pdl, d_pdl[0], rtol=1e-6, atol=1e-12) or not np.allclose(d_pmd, d_pmd[0], rtol=1e-6, atol=1e-30):
                    viol.append(dict(fingerprint='uniform-element-pmd-pdl-differs-per-channel',
                                     what=f'{where}: PDL^2 increase {d_pdl.tolist()}, PMD^2 increase {d_pmd.tolist()}'))
                    ok = False
                if (d_pdl < -1e-12).any() or (d_pmd < -1e-30).any():
                    viol.append(dict(fingerprint='pmd-pdl-decreased', what=where))
                    ok = False
            if not ok:
                break
        traces += ok
    for x in viol:
        x['case'] = case
    return {'violations': viol[:6], 'transitions': transitions, 'traces': traces, 'nontrivial': True,
            'tags': {'mbpath': 1}, 'sample': case}


# ---- (b3) designed networks: split fibres and a Raman span next to plain ones -----------------------------------------------------
DESIGNED = {
    # one 240 km fibre (auto-design splits it into equal spans and inserts amplifiers) and a 170 km one on the way back
    'split240': lambda: c.build_topology(['A', 'B'], [('A', 'B', [c.fiber(240, con_in=0.25, con_out=0.25)], [c.fiber(170)])]),
    # an automatic amplifier followed by a Raman span, plain fibres elsewhere; designed and propagated with Raman off
    'raman_after_amp': lambda: c.build_topology(['A', 'B'], [
        ('A', 'B', [c.edfa(), tg_raman(80), c.edfa(), c.fiber(60)], [c.fiber(80), c.edfa(), c.fiber(70)])]),
}


def tg_raman(length):
    from checks import topogen
    return topogen.raman_fiber(length)


def run_designed(case):
    """after auto-design, with Raman computation off: every plain fibre applies exactly the budget of its own (designed)
    parameters, latency and CD add up to those of the fibres of the input document"""
    import numpy as np
    from gnpy.core.elements import Fiber, RamanFiber
    viol = []
    topo = DESIGNED[case['net']]()
    eq = library()
    if 'RamanFiber' not in eq:
        eq['RamanFiber'] = [dict(next(f for f in eq['Fiber'] if f['type_variety'] == 'SSMF'))]
    # the simulation parameters (Raman computation off) are set once, before the design, and not touched again: the
    # propagations run with whatever the design left in force
    net, equipment, _, _ = c.design(topo, eq, sim={'raman_params': {'flag': False}})
    in_len = {}
    for e in topo['elements']:
        if e['type'] in ('Fiber', 'RamanFiber'):
            in_len[e['uid'].split(':')[0]] = in_len.get(e['uid'].split(':')[0], 0.0) + e['params']['length'] * 1e3
    transitions = 0
    traces = 0
    try:
        for path in c.all_simple_trx_paths(net):
            if any(isinstance(e, RamanFiber) for e in path):
                continue        # a pumped RamanFiber is not propagated with the Raman computation off
            req = c.make_request(equipment, path[0].uid, path[-1].uid,
                                 spectrum=[dict(f=f, baud=b, slot=s_) for f, b, s_ in zip(COMBS['mixed5']['f'], COMBS['mixed5']['baud'],
                                                                                          COMBS['mixed5']['slot'])])
            pth, si, rec = c.propagate_recorded(path, req, equipment)
            where0 = f'designed network {case["net"]}, path {path[0].uid}->{path[-1].uid}'
            ok = True
            for st in rec.steps:
                el = st['el']
                if not isinstance(el, Fiber):
                    continue
                transitions += 1
                pre, post = st['pre'], st['post']
                L = el.params.length
                d_lat = post['lat'] - pre['lat']
                if not np.allclose(d_lat, L * N1 / C0, rtol=1e-12):
                    viol.append(dict(fingerprint='latency-of-designed-span', what=f'{where0}: {el.uid} ({L / 1e3:.3f} km) adds '
                                     f'{d_lat[0]!r} s, L n / c = {L * N1 / C0!r}'))
                    ok = False
                if isinstance(el, RamanFiber):
                    continue
                lc = np.atleast_1d(el.params.loss_coef)      # dB/m, scalar here
                lumped_db = sum(x['loss'] for x in (getattr(el.params, 'lumped_losses', None) or []))
                budget = el.params.att_in + el.params.con_in + L * float(lc[0]) + lumped_db + el.params.con_out
                got = 10 * np.log10(pre['pch'] / post['pch'])
                if not np.allclose(got, budget, rtol=0, atol=1e-9):
                    viol.append(dict(fingerprint='loss-budget:designed-network', what=f'{where0}: {el.uid} attenuates by '
                                     f'{got.tolist()} dB, its budget (pad {el.params.att_in} + connectors + {L / 1e3:.3f} km x '
                                     f'{float(lc[0]) * 1e3} dB/km) is {budget:.6f} dB'))
                    ok = False
            first, last = rec.steps[0]['pre'], rec.steps[-1]['post']
            links = {st['uid'].split(':')[0] for st in rec.steps if isinstance(st['el'], Fiber)}
            exp_lat = sum(in_len.get(k, 0.0) for k in links) * N1 / C0
            if not np.allclose(last['lat'] - first['lat'], exp_lat, rtol=1e-9):
                viol.append(dict(fingerprint='path-latency:designed-network', what=f'{where0}: latency {(last["lat"] - first["lat"])[0]!r} '
                                 f's, fibres of the input document give {exp_lat!r} s'))
                ok = False
            traces += ok
    finally:
        c.set_sim_params({})
    for x in viol:
        x['case'] = case
    return {'violations': viol[:6], 'transitions': transitions, 'traces': traces, 'nontrivial': True,
            'tags': {'designed:' + case['net']: 1}, 'sample': case}


# ---- (c) ------------------------------------------------------------------------------------------------------------
C_SPACE = {
    'method': ['perturbative2', 'perturbative1', 'perturbative4', 'numerical'],
    'res': [10e3, 1e3],
    'step': [1e3, 2e3, 100.0],
    'lumped': ['none', 'one', 'two', 'on_grid', 'three', 'three_unsorted'],
    'pumps': ['none', 'cnt1', 'cnt2', 'co_cnt'],
    'length': [80.0, 50.0],
    'loss': ['0.2', 'table_asc'],
    'att_in': [0.0, 2.0],
    'con': [(0.5, 0.5), (0.2, 0.9)],
}
PUMPS = {
    'none': [],
    'cnt1': [{'power': 0.2, 'frequency': 205e12, 'propagation_direction': 'counterprop'}],
    'cnt2': [{'power': 0.224403, 'frequency': 205e12, 'propagation_direction': 'counterprop'},
             {'power': 0.231135, 'frequency': 201e12, 'propagation_direction': 'counterprop'}],
    'co_cnt': [{'power': 0.1, 'frequency': 204e12, 'propagation_direction': 'coprop'},
               {'power': 0.2, 'frequency': 205e12, 'propagation_direction': 'counterprop'}],
}


def lumped_c(kind, length):
    if kind == 'none':
        return []
    if kind == 'one':
        return [{'position': 17.3, 'loss': 1.0}]
    if kind == 'two':
        return [{'position': 17.3, 'loss': 1.0}, {'position': 41.7, 'loss': 0.7}]
    if kind == 'on_grid':
        return [{'position': 20.0, 'loss': 1.0}, {'position': 30.0, 'loss': 0.5}]
    if kind == 'three_unsorted':
        return [{'position': 40.0, 'loss': 0.5}, {'position': 10.0, 'loss': 0.3}, {'position': 25.5, 'loss': 0.8}]
    return [{'position': 10.0, 'loss': 0.5}, {'position': 25.5, 'loss': 0.8}, {'position': 40.0, 'loss': 0.5}]


def sim_for(method, res, step):
    m = 'numerical' if method == 'numerical' else 'perturbative'
    order = int(method[-1]) if method != 'numerical' else 2
    return {'raman_params': {'flag': True, 'method': m, 'order': order, 'result_spatial_resolution': res,
                             'solver_spatial_resolution': step}}


def raman_fibre(rc):
    fc = dict(length=rc['length'], loss=rc['loss'], lumped='none')
    lc, table = loss_param(fc['loss'])
    con_in, con_out = rc.get('con', (0.5, 0.5))
    p = {'length': fc['length'], 'length_units': 'km', 'att_in': rc.get('att_in', 0.0), 'con_in': con_in, 'con_out': con_out,
         'loss_coef': table if table is not None else lc}
    ll = lumped_c(rc['lumped'], rc['length'])
    if ll:
        p['lumped_losses'] = ll
    e = {'type': 'RamanFiber', 'type_variety': 'SSMF', 'params': p,
         'operational': {'temperature': 283, 'raman_pumps': PUMPS[rc['pumps']]}}
    equipment = c.make_equipment(library())
    topo = c.build_topology(['A', 'B'], [('A', 'B', [e], None)])
    net = c.load_network(topo, equipment)
    fib = c.node(net, 'A>B:0:RamanFiber')
    fib.ref_pch_in_dbm = 0.0
    return fib


def raman_loss_db(rc, level, sim):
    import numpy as np
    c.set_sim_params(sim)
    fib = raman_fibre(rc)
    si = make_si(COMBS['edges3'], level=level)
    pre = c.snap(si)
    out = fib(si)
    post = c.snap(out)
    return 10 * np.log10(pre['pch'] / post['pch']), pre, post


def run_raman(case):
    import numpy as np
    rc = case['raman']
    viol = []
    sim = sim_for(rc['method'], rc['res'], rc['step'])
    where = f'RamanFiber {rc}'
    ll = lumped_c(rc['lumped'], rc['length'])
    con_in, con_out = rc.get('con', (0.5, 0.5))
    budget = np.array([rc.get('att_in', 0.0) + con_in + rc['length'] * alpha_db_per_km(rc['loss'], f) + sum(x['loss'] for x in ll)
                       + con_out for f in COMBS['edges3']['f']])
    alpha_lin = np.array([alpha_db_per_km(rc['loss'], f) for f in COMBS['edges3']['f']]) / 4.342944819 * 1e-3
    L = rc['length'] * 1e3
    # exact bias of an explicit Euler integration of dP/dz = -alpha P with step dz over L (per channel, dB): each step
    # multiplies by (1 - alpha dz) instead of exp(-alpha dz); 20 % head room + 1e-3 dB
    euler = -4.342944819 * (L / rc['step']) * (np.log(1 - alpha_lin * rc['step']) + alpha_lin * rc['step']) * 1.2 + 1e-3
    transitions = 0
    try:
        no_pump = dict(rc, pumps='none')
        low, _, _ = raman_loss_db(no_pump, -60.0, sim)
        transitions += 1
        tol = 1e-6 if rc['method'] != 'numerical' else euler
        if (np.abs(low - budget) > tol).any():
            viol.append(dict(fingerprint='raman-low-power-limit' + (':lumped' if ll else ''),
                             what=f'{where}: at -60 dBm and without pumps the loss is {low.tolist()} dB, loss budget '
                                  f'{budget.tolist()} dB (tolerance {np.max(tol):.2e})'))
        # perturbative vs numerical (same settings otherwise), at 0 dBm/ch with the configured pumps
        a, _, _ = raman_loss_db(rc, 0.0, sim_for('perturbative2', rc['res'], rc['step']))
        b, _, _ = raman_loss_db(rc, 0.0, sim_for('numerical', rc['res'], rc['step']))
        transitions += 2
        pump_w = sum(p['power'] for p in PUMPS[rc['pumps']])
        # with pumps the Euler bias also acts on the pump depletion: head room proportional to the on-off gain
        onoff = np.abs(budget - a)
        tol2 = euler + 0.02 * onoff + (0.05 if pump_w else 0.0)
        if (np.abs(a - b) > tol2).any():
            viol.append(dict(fingerprint='raman-methods-disagree' + (':lumped' if ll else ''),
                             what=f'{where}: perturbative {a.tolist()} dB vs numerical {b.tolist()} dB (tolerance {tol2.tolist()})'))
        tilt_tol = 1e-3 + 0.01 * onoff.max() + 1.2 * alpha_lin.max() * rc['step'] * np.abs(a - a.mean()).max()
        if (np.abs((a - a.mean()) - (b - b.mean())) > tilt_tol).any():
            viol.append(dict(fingerprint='raman-tilt-disagree', what=f'{where}: channel-to-channel tilt differs between methods: '
                             f'{(a - a.mean()).tolist()} vs {(b - b.mean()).tolist()}'))
        # each lumped loss applied once: difference with / without lumped losses in the low-power limit
        if ll:
            base, _, _ = raman_loss_db(dict(no_pump, lumped='none'), -60.0, sim)
            transitions += 1
            extra = low - base
            if (np.abs(extra - sum(x['loss'] for x in ll)) > 2 * np.max(tol) + 1e-6).any():
                viol.append(dict(fingerprint='lumped-loss-not-once', what=f'{where}: lumped losses {ll} add {extra.tolist()} dB'))
        # counter-propagating pumps only add gain
        if rc['pumps'] in ('cnt1', 'cnt2'):
            with_p, _, _ = raman_loss_db(rc, -20.0, sim)
            without, _, _ = raman_loss_db(no_pump, -20.0, sim)
            transitions += 2
            if (with_p > without + 1e-9).any():
                viol.append(dict(fingerprint='counter-pump-reduces-output', what=f'{where}: loss with pumps {with_p.tolist()} '
                                 f'> without {without.tolist()}'))
    except Exception as exc:  # noqa
        import traceback
        viol.append(dict(fingerprint=f'raman-raised:{type(exc).__name__}', what=f'{where}: {exc}',
                         traceback=traceback.format_exc()))
    finally:
        c.set_sim_params({})
    for x in viol:
        x['case'] = case
    return {'violations': viol, 'transitions': transitions, 'traces': 0 if viol else 1, 'nontrivial': bool(ll) or rc['pumps'] != 'none',
            'tags': {'raman': 1, 'raman:' + rc['method']: 1}, 'sample': case}


def run_case(case):
    return {'single': run_single, 'path': run_path, 'raman': run_raman, 'mbpath': run_mbpath, 'designed': run_designed}[case['kind']](case)


def main(rep, tier, seed):
    cases = []
    names = list(A_SPACE)
    for vals in itertools.product(*A_SPACE.values()):
        cases.append({'kind': 'single', 'fibre': dict(zip(names, vals))})
    n_a = len(cases)
    amp_sets = [['std_medium_gain'], ['std_medium_gain', 'std_low_gain']]
    span_sets = SPAN_SETS + (SPAN_SETS_DEEP if tier == 'thorough' else [])
    for ss in span_sets:
        for am in amp_sets:
            cases.append({'kind': 'path', 'spans': ss, 'amps': am})
    for net_ in ('CL', 'CLS', 'mixed_C_then_CL', 'CLS_then_CL', 'wide_then_CL', 'narrowC'):
        for decl in ('descending', 'ascending'):
            cases.append({'kind': 'mbpath', 'net': net_, 'declared': decl})
    for net_ in DESIGNED:
        cases.append({'kind': 'designed', 'net': net_})
    n_b2 = 12 + len(DESIGNED)
    sp = engine.Space(C_SPACE, constraint=lambda x: not (x['step'] == 100.0 and x['length'] == 80.0 and x['method'] == 'numerical'
                                                        and x['pumps'] == 'co_cnt'))
    d = 3 if tier == 'quick' else len(C_SPACE)
    for x in (sp.enumerate(d) if tier == 'quick' else sp.full()):
        cases.append({'kind': 'raman', 'raman': {k: x[k] for k in C_SPACE}})
    n_c = len(cases) - n_a - len(span_sets) * len(amp_sets) - n_b2
    results, stats = engine.run_pool('checks.c05', cases, horizon=600)
    rep.absorb(results)
    rep.cov['bound'] = (f'(a) full product over {list(A_SPACE)} = {n_a} single fibres; (b) {len(span_sets)} span sets x 2 amplifier '
                        f'sequences, every order of each span list; (b2) 6 multi-band networks x 2 declaration orders of the band amplifiers x every path; (b3) 2 auto-designed networks (split fibres, Raman span after an automatic amplifier) x every path; (c) Raman settings {"within 3 deviations" if tier == "quick" else "full product"} over {list(C_SPACE)} '
                        f'= {n_c} configurations')
    rep.cov['space_size'] = len(cases)
    rep.cov['exhaustive'] = not stats['budget_hit'] and len(results) == len(cases)
    rep.cov['rule'] = ('real Fiber / RamanFiber elements built by network_from_json, real __call__ / request.propagate; oracles from '
                       'the input documents: loss budget (1e-9 dB), D L, L n/c, quadrature sums, equality over all span orders; '
                       'Raman: low-power limit, perturbative vs numerical within the analytic Euler bound, lumped losses once, '
                       'counter pumps only add gain. Non-trivial: per-frequency table / lumped loss / pad present, >= 2 orders, '
                       'pumps or lumped losses present.')
    rep.assumptions += ['group index 1.468 and library dispersion / PMD coefficients are read from the documents',
                        'numerical-solver tolerance is the explicit-Euler bias -4.343 (L/dz) [ln(1 - alpha dz) + alpha dz] (x1.2) + 1e-3 dB']
    rep.require(rep.tags.get('single', 0) >= 100 and rep.tags.get('path-sets', 0) >= 4 and rep.tags.get('raman', 0) >= 20,
                'one of the three parts did not run')
    rep.require(rep.tags.get('mbpath', 0) >= 12, 'multi-band PMD/PDL paths did not run')
    rep.require(rep.tags.get('raman:numerical', 0) >= 1 and rep.tags.get('raman:perturbative2', 0) >= 1, 'Raman methods not both run')
