"""C20 - spreadsheet inputs convert to the network and services they describe.

Deviation-bounded enumeration of workbooks (site types and degrees, one-/two-sided link columns, Eqpt rows, Roadms rows,
Service rows) and of error workbooks (each documented rule violated once).  Every workbook is really written as .xlsx with
openpyxl into a scratch directory and converted by the real xls_to_json_data / read_service_sheet; the same content is
also fed through an in-memory object implementing the xlrd sheet API (the .xls code path) and must give identical JSON.
Oracle: reference model of docs/excel.rst evaluated on the produced JSON and on its graph; then the real loaders and
auto-design must accept it.
"""
import copy
import itertools
import os
import tempfile

from mc import engine
from checks import common as c

ARROW = '→'


# ---- workbook model --------------------------------------------------------------------------------------------------------
def base_book(alt=False):
    """3 ROADM sites in a line with an ILA site and a FUSED site in between; alt: the ILA and the FUSED site are neighbours"""
    if alt:
        return {
            'nodes': [dict(city='A', type='ROADM'), dict(city='I', type='ILA'), dict(city='F', type='FUSED'),
                      dict(city='B', type='ROADM'), dict(city='C', type='ROADM')],
            'links': [dict(a='A', z='I', east=dict(dist=60, cable='c1')), dict(a='I', z='F', east=dict(dist=40, cable='c2')),
                      dict(a='F', z='B', east=dict(dist=30, cable='c3')), dict(a='B', z='C', east=dict(dist=70, cable='c4'))],
            'eqpt': [], 'roadms': [], 'service': []}
    return {
        'nodes': [dict(city='A', type='ROADM'), dict(city='I', type='ILA'), dict(city='B', type='ROADM'),
                  dict(city='F', type='FUSED'), dict(city='C', type='ROADM')],
        'links': [dict(a='A', z='I', east=dict(dist=60, fiber='SSMF', lineic=0.2, cable='c1')),
                  dict(a='I', z='B', east=dict(dist=70, fiber='SSMF', lineic=0.21, cable='c2')),
                  dict(a='B', z='F', east=dict(dist=40, fiber='SSMF', lineic=0.2, cable='c3')),
                  dict(a='F', z='C', east=dict(dist=30, fiber='SSMF', lineic=0.22, cable='c4'))],
        'eqpt': [], 'roadms': [], 'service': [],
    }


def w(**kw):
    return kw


MUT = {}


def mut(name):
    def deco(fn):
        MUT[name] = fn
        return fn
    return deco


@mut('west_values')
def _(b):
    b['links'][0]['west'] = dict(dist=65, fiber='SSMF', lineic=0.23, con_in=0.3, con_out=0.4, pmd=0.5, cable='c1w')


@mut('west_partial')
def _(b):
    b['links'][1]['west'] = dict(lineic=0.25, con_out=0.7)


@mut('east_connectors_pmd')
def _(b):
    b['links'][1]['east'].update(con_in=0.25, con_out=0.35, pmd=0.8)


@mut('zero_cells')
def _(b):
    b['links'][2]['east'].update(con_in=0, con_out=0)
    b['links'][2]['west'] = dict(con_in=0, con_out=0.6)


@mut('west_zero_east_not')
def _(b):
    # west cells filled with 0 while the east value is not 0: the west fibre takes 0, not the east value
    b['links'][3]['east'].update(con_in=0.5, con_out=0.4)
    b['links'][3]['west'] = dict(con_in=0, con_out=0)


@mut('float_lengths')
def _(b):
    b['links'][3]['east']['dist'] = 30.123456


@mut('blank_type')
def _(b):
    b['nodes'][1]['type'] = None


@mut('unknown_type')
def _(b):
    b['nodes'][1]['type'] = 'OLA'


@mut('ila_degree3')
def _(b):
    b['nodes'].append(dict(city='D', type='ROADM'))
    b['links'].append(dict(a='I', z='D', east=dict(dist=50, fiber='SSMF', lineic=0.2, cable='c5')))


@mut('ila_degree1')
def _(b):
    b['nodes'].append(dict(city='E', type='ILA'))
    b['links'].append(dict(a='C', z='E', east=dict(dist=20, fiber='SSMF', lineic=0.2, cable='c6')))


@mut('fused_degree3')
def _(b):
    b['nodes'].append(dict(city='D', type='ROADM'))
    b['links'].append(dict(a='F', z='D', east=dict(dist=50, fiber='SSMF', lineic=0.2, cable='c7')))


@mut('link_reversed_order')
def _(b):
    b['links'][1] = dict(a='B', z='I', east=dict(dist=70, fiber='SSMF', lineic=0.21, cable='c2'))


@mut('eqpt_roadm_east')
def _(b):
    b['eqpt'].append(dict(a='A', z='I', east=dict(amp='std_low_gain', gain=18.5, dp=1.5, tilt=-0.5, att_out=1.0, att_in=0.5)))


@mut('eqpt_roadm_both')
def _(b):
    b['eqpt'].append(dict(a='B', z='I', east=dict(amp='std_medium_gain', gain=20), west=dict(amp='std_low_gain', gain=12, att_out=2.0)))


@mut('eqpt_ila')
def _(b):
    b['eqpt'].append(dict(a='I', z='B', east=dict(amp='std_medium_gain', gain=21.5, dp=2.0), west=dict(amp='std_low_gain', gain=13)))


@mut('eqpt_ila_towards_first')
def _(b):
    b['eqpt'].append(dict(a='I', z='A', east=dict(amp='std_low_gain', gain=14), west=dict(amp='std_medium_gain', gain=22)))


@mut('eqpt_fused_booster')
def _(b):
    b['eqpt'].append(dict(a='C', z='F', east=dict(amp='fused')))


@mut('eqpt_on_fused_site')
def _(b):
    # an Eqpt row whose Node A is a FUSED site (the shipped juniperTopologyExampleV2J.xls has such rows): the site stays fused
    b['eqpt'].append(dict(a='F', z='C', east=dict(amp='std_low_gain'), west=dict(amp='std_low_gain')))


@mut('eqpt_no_type')
def _(b):
    b['eqpt'].append(dict(a='B', z='F', east=dict(gain=17.25, att_in=1.0)))


@mut('roadm_rows')
def _(b):
    b['roadms'].append(dict(a='B', z='I', target=-18.5))
    b['roadms'].append(dict(a='B', z='F', target=-21))


@mut('restrictions')
def _(b):
    b['nodes'][0]['booster'] = 'std_low_gain | std_medium_gain'
    b['nodes'][0]['preamp'] = 'std_medium_gain'


@mut('coordinates')
def _(b):
    b['nodes'][0].update(lat=48.5, lng=-3.25, region='R1', state='S', country='X')
    b['nodes'][2].update(lat=47.0, lng=-2.0, region='R2')


ERRORS = {}


def err(name):
    def deco(fn):
        ERRORS[name] = fn
        return fn
    return deco


@err('duplicate_city')
def _(b):
    b['nodes'].append(dict(city='A', type='ROADM'))


@err('link_unknown_node')
def _(b):
    b['links'].append(dict(a='C', z='Z', east=dict(dist=10)))


@err('duplicate_link')
def _(b):
    b['links'].append(dict(a='A', z='I', east=dict(dist=10)))


@err('duplicate_link_reversed')
def _(b):
    b['links'].append(dict(a='I', z='A', east=dict(dist=10)))


@err('unreferenced_node')
def _(b):
    b['nodes'].append(dict(city='Q', type='ROADM'))


@err('eqpt_unknown_node')
def _(b):
    b['eqpt'].append(dict(a='Z', z='A', east=dict(amp='std_low_gain')))


@err('eqpt_unknown_to_node')
def _(b):
    b['eqpt'].append(dict(a='A', z='Z', east=dict(amp='std_low_gain')))


@err('eqpt_unknown_link')
def _(b):
    b['eqpt'].append(dict(a='A', z='C', east=dict(amp='std_low_gain')))


@err('duplicate_eqpt')
def _(b):
    b['eqpt'].append(dict(a='A', z='I', east=dict(amp='std_low_gain')))
    b['eqpt'].append(dict(a='A', z='I', east=dict(amp='std_medium_gain')))


@err('two_eqpt_rows_for_ila')
def _(b):
    b['eqpt'].append(dict(a='I', z='A', east=dict(amp='std_low_gain')))
    b['eqpt'].append(dict(a='I', z='B', east=dict(amp='std_medium_gain')))


NODE_COLS = ['City', 'State', 'Country', 'Region', 'Latitude', 'Longitude', 'Type', 'Booster_restriction', 'Preamp_restriction']
LINK_SIDE = ['Distance (km)', 'Fiber type', 'lineic att', 'Con_in', 'Con_out', 'PMD', 'Cable id']
LINK_KEYS = ['dist', 'fiber', 'lineic', 'con_in', 'con_out', 'pmd', 'cable']
EQPT_SIDE = ['amp type', 'att_in', 'amp gain', 'tilt', 'att_out', 'delta p']
EQPT_KEYS = ['amp', 'att_in', 'gain', 'tilt', 'att_out', 'dp']
ROADM_COLS = ['Node A', 'Node Z', 'per degree target power (dBm)', 'type_variety', 'from degrees', 'from degree to degree impairment id']
SERVICE_COLS = ['route id', 'Source', 'Destination', 'TRX type', 'Mode', 'System: spacing', 'System: input power (dBm)',
                'System: nb of channels', 'routing: disjoint from', 'routing: path', 'routing: is loose?', 'path bandwidth']
SERVICE_KEYS = ['id', 'src', 'dst', 'trx', 'mode', 'spacing', 'power', 'nch', 'disjoint', 'path', 'loose', 'bw']


def sheets(book):
    """the workbook as {sheet name: list of rows (lists of cell values, None = empty)}"""
    out = {}
    rows = [[None] * 9 for _ in range(4)] + [NODE_COLS]
    for n in book['nodes']:
        rows.append([n['city'], n.get('state'), n.get('country'), n.get('region'), n.get('lat'), n.get('lng'), n.get('type'),
                     n.get('booster'), n.get('preamp')])
    out['Nodes'] = rows
    rows = [[None] * 16 for _ in range(3)] + [[None, None, 'east cable (from a to z)'] + [None] * 6 + ['west (from z to a'] + [None] * 6,
                                              ['Node A', 'Node Z'] + LINK_SIDE + LINK_SIDE]
    for lk in book['links']:
        rows.append([lk['a'], lk['z']] + [lk.get('east', {}).get(k) for k in LINK_KEYS] + [lk.get('west', {}).get(k) for k in LINK_KEYS])
    out['Links'] = rows
    if book['eqpt'] or book.get('force_eqpt_sheet'):
        rows = [[None] * 14 for _ in range(3)] + [[None, None, 'east'] + [None] * 5 + ['west'] + [None] * 5,
                                                  ['Node A', 'Node Z'] + EQPT_SIDE + EQPT_SIDE]
        for e in book['eqpt']:
            rows.append([e['a'], e['z']] + [e.get('east', {}).get(k) for k in EQPT_KEYS] + [e.get('west', {}).get(k) for k in EQPT_KEYS])
        out['Eqpt'] = rows
    if book['roadms']:
        rows = [[None] * 6 for _ in range(4)] + [ROADM_COLS]
        for r in book['roadms']:
            rows.append([r['a'], r['z'], r.get('target'), r.get('variety'), r.get('from_degrees'), r.get('imp')])
        out['Roadms'] = rows
    if book['service']:
        rows = [[None] * 12 for _ in range(4)] + [SERVICE_COLS]
        for s in book['service']:
            rows.append([s.get(k) for k in SERVICE_KEYS])
        out['Service'] = rows
    return out


SHIPPED = ['gnpy/example-data/meshTopologyExampleV2.xls', 'gnpy/example-data/CORONET_Global_Topology.xls',
           'gnpy/example-data/juniperTopologyExampleV2J.xls', 'tests/data/testTopology.xls', 'tests/data/testTopologyconvert.xls',
           'tests/data/perdegreemeshTopologyExampleV2.xls', 'tests/data/testService.xls']


def book_from_xls(path):
    """the workbook description of a real .xls file, read with xlrd directly (not through gnpy's sheet readers): header rows
    are found by their first cell, columns are taken by position as documented in docs/excel.rst"""
    import xlrd
    wb = xlrd.open_workbook(path)

    def rows_of(name, first):
        if name not in wb.sheet_names():
            return []
        sh = wb.sheet_by_name(name)
        hdr = next((r for r in range(sh.nrows) if str(sh.cell_value(r, 0)).strip() == first), None)
        if hdr is None:
            return []
        out = []
        for r in range(hdr + 1, sh.nrows):
            vals = [None if (c.ctype in (xlrd.XL_CELL_EMPTY, xlrd.XL_CELL_BLANK) or c.value == '') else c.value for c in sh.row(r)]
            if all(v is None for v in vals):
                continue
            out.append(vals)
        return out

    def cell(vals, i):
        return vals[i] if (i is not None and i < len(vals)) else None

    def header(name, first):
        sh = wb.sheet_by_name(name)
        hdr = next(r for r in range(sh.nrows) if str(sh.cell_value(r, 0)).strip() == first)
        return [str(c.value).strip() for c in sh.row(hdr)]

    def side_cols(hdr, names, keys):
        """column index of each key for the east (first occurrence) and the west (second occurrence) block"""
        out = {'east': {}, 'west': {}}
        for nm, k in zip(names, keys):
            pos = [i for i, h in enumerate(hdr) if h == nm]
            out['east'][k] = pos[0] if pos else None
            out['west'][k] = pos[1] if len(pos) > 1 else None
        return out
    book = {'nodes': [], 'links': [], 'eqpt': [], 'roadms': [], 'service': []}
    rows = rows_of('Nodes', 'City')
    if rows:
        hdr = header('Nodes', 'City')
        col = {k: (hdr.index(nm) if nm in hdr else None) for nm, k in zip(
            NODE_COLS, ['city', 'state', 'country', 'region', 'lat', 'lng', 'type', 'booster', 'preamp'])}
        for v in rows:
            book['nodes'].append({k: cell(v, i) for k, i in col.items() if cell(v, i) is not None})
    rows = rows_of('Links', 'Node A')
    if rows:
        cols = side_cols(header('Links', 'Node A'), LINK_SIDE, LINK_KEYS)
        for v in rows:
            lk = dict(a=cell(v, 0), z=cell(v, 1))
            for sidename in ('east', 'west'):
                side_ = {k: cell(v, i) for k, i in cols[sidename].items() if cell(v, i) is not None}
                if side_:
                    lk[sidename] = side_
            book['links'].append(lk)
    rows = rows_of('Eqpt', 'Node A')
    if rows:
        cols = side_cols(header('Eqpt', 'Node A'), EQPT_SIDE, EQPT_KEYS)
        for v in rows:
            e = dict(a=cell(v, 0), z=cell(v, 1))
            for sidename in ('east', 'west'):
                side_ = {k: cell(v, i) for k, i in cols[sidename].items() if cell(v, i) is not None}
                if side_:
                    e[sidename] = side_
            book['eqpt'].append(e)
    for v in rows_of('Roadms', 'Node A'):
        r = dict(a=cell(v, 0), z=cell(v, 1), target=cell(v, 2), variety=cell(v, 3), from_degrees=cell(v, 4), imp=cell(v, 5))
        book['roadms'].append({k: x for k, x in r.items() if x is not None})
    for v in rows_of('Service', 'route id'):
        book['service'].append({k: cell(v, i) for i, k in enumerate(SERVICE_KEYS) if cell(v, i) is not None})
    return book


def write_xlsx(book, path):
    import openpyxl
    wb = openpyxl.Workbook()
    wb.remove(wb.active)
    for name, rows in sheets(book).items():
        ws = wb.create_sheet(name)
        for r in rows:
            ws.append(r)
    wb.save(path)


class FakeCell:
    def __init__(self, v):
        if v is None:
            self.value, self.ctype = '', 0
        elif isinstance(v, bool):
            self.value, self.ctype = int(v), 4
        elif isinstance(v, (int, float)):
            self.value, self.ctype = float(v), 2
        else:
            self.value, self.ctype = v, 1


class FakeSheet:
    def __init__(self, name, rows):
        self.name = name
        width = max(max(len(r) for r in rows), 17)
        self._rows = [[FakeCell(v) for v in r + [None] * (width - len(r))] for r in rows]
        self.nrows, self.ncols = len(rows), width

    def row(self, i):
        return self._rows[i]

    def cell(self, r, col):
        return self._rows[r][col]

    def row_slice(self, i, start=0, end=None):
        return self._rows[i][start:end]

    def row_values(self, i):
        return [x.value for x in self._rows[i]]


class FakeBook:
    """the part of the xlrd Book API that gnpy.tools.xls_utils uses"""
    def __init__(self, book):
        self._sheets = [FakeSheet(n, r) for n, r in sheets(book).items()]
        self.nsheets = len(self._sheets)

    def sheet_by_name(self, name):
        from xlrd.biffh import XLRDError
        for s in self._sheets:
            if s.name == name:
                return s
        raise XLRDError(f'No sheet named <{name!r}>')

    def sheet_by_index(self, i):
        return self._sheets[i]

    def sheet_names(self):
        return [s.name for s in self._sheets]


def convert_both(book):
    """returns (json from the .xlsx file, json from the xlrd-API object) or raises what the converter raises"""
    from pathlib import Path
    from gnpy.tools import convert
    with tempfile.TemporaryDirectory(prefix='c20_') as tmp:
        p = Path(tmp) / 'book.xlsx'
        write_xlsx(book, p)
        j1 = convert.xls_to_json_data(p)
    orig = convert.generic_open_workbook
    convert.generic_open_workbook = lambda path: (FakeBook(book), False)
    try:
        j2 = convert.xls_to_json_data(Path('book.xls'))
    finally:
        convert.generic_open_workbook = orig
    return j1, j2


# ---- reference model ----------------------------------------------------------------------------------------------------
def effective_types(book):
    """site types after the documented correction: unknown/blank -> ILA; an ILA (and, by the module docstring, any non-ROADM
    site) whose degree is not 2 becomes a ROADM"""
    deg = {}
    for lk in book['links']:
        deg[lk['a']] = deg.get(lk['a'], 0) + 1
        deg[lk['z']] = deg.get(lk['z'], 0) + 1
    out = {}
    for n in book['nodes']:
        t = n.get('type')
        if t not in ('ROADM', 'ILA', 'FUSED'):
            t = 'ILA'
        if t in ('ILA', 'FUSED') and deg.get(n['city'], 0) != 2:
            t = 'ROADM'
        out[n['city']] = t
    return out, deg


def side(lk, d):
    """values of direction d ('east' a->z, 'west' z->a) with west defaulting to east and documented defaults"""
    defaults = dict(dist=80, fiber='SSMF', lineic=0.2, con_in=None, con_out=None, pmd=None, cable='')
    east = dict(defaults)
    east.update({k: v for k, v in lk.get('east', {}).items() if v is not None and v != ''})
    if d == 'east':
        return east
    west = dict(east)
    west.update({k: v for k, v in lk.get('west', {}).items() if v is not None and v != ''})
    return west


def judge(book, j, viol, where, tags):
    import networkx as nx

    def v(fp, what):
        viol.append(dict(fingerprint=fp, what=f'{where}: {what}'))
    types, deg = effective_types(book)
    els = {}
    for e in j['elements']:
        if e['uid'] in els:
            v('duplicate-uid', e['uid'])
        els[e['uid']] = e
    g = nx.DiGraph()
    for cx in j['connections']:
        for k in ('from_node', 'to_node'):
            if cx[k] not in els:
                v('connection-endpoint-missing', f'{cx}')
        g.add_edge(cx['from_node'], cx['to_node'])
    # sites
    for city, t in types.items():
        if t == 'ROADM':
            if f'roadm {city}' not in els or els[f'roadm {city}']['type'] != 'Roadm':
                v('roadm-missing', city)
            if f'trx {city}' not in els or els[f'trx {city}']['type'] != 'Transceiver':
                v('transceiver-missing', city)
            elif not (g.has_edge(f'trx {city}', f'roadm {city}') and g.has_edge(f'roadm {city}', f'trx {city}')):
                v('transceiver-not-wired', city)
        else:
            if f'roadm {city}' in els or f'trx {city}' in els:
                v('roadm-created-for-line-site', f'{city} ({t})')
            mine = [u for u, e in els.items() if e['type'] in ('Edfa', 'Fused') and (u.endswith(f' in {city}') or f' in {city} to ' in u)]
            if len(mine) != 2:
                v('line-site-elements', f'{city} ({t}) has elements {mine}')
            want = 'Fused' if t == 'FUSED' else None
            for u in mine:
                if want and els[u]['type'] != want:
                    v('fused-site-with-amplifier', f'{u} is {els[u]["type"]}')
    tags['site-types:' + '+'.join(sorted(set(types.values())))] = 1
    # fibres
    for lk in book['links']:
        for d, (x, y) in (('east', (lk['a'], lk['z'])), ('west', (lk['z'], lk['a']))):
            s = side(lk, d)
            uid = f'fiber ({x} {ARROW} {y})-{s["cable"]}'
            if uid not in els:
                v('fibre-missing', f'{uid} (direction {d} of link {lk["a"]}-{lk["z"]})')
                continue
            p = els[uid]['params']
            exp = {'length': round(float(s['dist']), 3), 'loss_coef': s['lineic']}
            for k in ('con_in', 'con_out'):
                if s[k] is not None:
                    exp[k] = s[k]
            for k, val in exp.items():
                if p.get(k) is None or abs(p[k] - val) > 1e-12:
                    west_default = d == 'west' and (lk.get('west', {}).get({'length': 'dist', 'loss_coef': 'lineic'}.get(k, k)) in (None, ''))
                    v(f'fibre-value:{k}' + (':west-defaults-to-east' if west_default else ''),
                      f'{uid}: {k} = {p.get(k)!r}, the sheet says {val!r}')
            if els[uid].get('type_variety') != s['fiber']:
                v('fibre-value:type', f'{uid}: {els[uid].get("type_variety")} vs {s["fiber"]}')
            if s['pmd'] is not None:
                exp_pmd = s['pmd'] * 1e-12 / (float(s['dist']) * 1e3) ** 0.5
                if p.get('pmd_coef') is None or abs(p['pmd_coef'] - exp_pmd) > 1e-9 * exp_pmd:
                    v('fibre-value:pmd', f'{uid}: pmd_coef {p.get("pmd_coef")!r} expected {exp_pmd!r}')
            # the fibre chain leads from the site x towards the site y
            if not reaches(g, els, uid, y, forward=True) or not reaches(g, els, uid, x, forward=False):
                v('fibre-not-wired-between-its-sites', f'{uid}')
        if lk.get('west'):
            tags['two-sided-link'] = 1
    # line elements are one-in/one-out
    for u, e in els.items():
        if e['type'] not in ('Roadm', 'Transceiver'):
            if g.in_degree(u) != 1 or g.out_degree(u) != 1:
                v('line-element-degree', f'{u}: in {g.in_degree(u) if u in g else 0} out {g.out_degree(u) if u in g else 0}')
    # Eqpt rows: settings land on the amplifier of site a facing neighbour z
    for e in book['eqpt']:
        if types.get(e['a']) == 'FUSED':
            # a FUSED site has no amplifier for the row to describe: the site's two fused elements are all it gets (judged above)
            tags['eqpt-row-on-fused-site'] = 1
            continue
        for d in ('east', 'west'):
            vals = e.get(d)
            if not vals:
                continue
            uid = f'{d} edfa in {e["a"]} to {e["z"]}'
            if uid not in els:
                v('eqpt-element-missing', uid)
                continue
            x = els[uid]
            if vals.get('amp') == 'fused':
                if x['type'] != 'Fused':
                    v('eqpt-fused-not-fused', uid)
                continue
            op = x.get('operational', {})
            exp = {'gain_target': vals.get('gain'), 'delta_p': vals.get('dp'), 'tilt_target': vals.get('tilt'),
                   'out_voa': vals.get('att_out'), 'in_voa': vals.get('att_in', 0)}
            for k, val in exp.items():
                if op.get(k) != val and not (val is None and op.get(k) is None):
                    v(f'eqpt-value:{k}', f'{uid}: {k} = {op.get(k)!r}, the Eqpt row says {val!r}')
            if vals.get('amp') and x.get('type_variety') != vals['amp']:
                v('eqpt-value:type', f'{uid}: {x.get("type_variety")} vs {vals["amp"]}')
            # facing: the east (egress) amplifier's successors lead to z, the west (ingress) amplifier is fed from z
            if d == 'east' and not reaches(g, els, uid, e['z'], forward=True):
                v('eqpt-amplifier-not-facing-neighbour', f'{uid} does not lead to site {e["z"]}')
            if d == 'west' and not reaches(g, els, uid, e['z'], forward=False):
                v('eqpt-amplifier-not-facing-neighbour', f'{uid} is not fed from site {e["z"]}')
        tags['eqpt-rows'] = 1
    for r in book['roadms']:
        rd = els.get(f'roadm {r["a"]}', {})
        key = f'east edfa in {r["a"]} to {r["z"]}'
        got = rd.get('params', {}).get('per_degree_pch_out_db', {}).get(key)
        if r.get('target') is not None and got != r['target']:
            v('roadm-per-degree-target', f'roadm {r["a"]} degree {key}: {got!r} vs {r["target"]!r}')
    for n in book['nodes']:
        if types[n['city']] == 'ROADM' and (n.get('booster') or n.get('preamp')):
            rs = els.get(f'roadm {n["city"]}', {}).get('params', {}).get('restrictions', {})
            if rs.get('booster_variety_list') != [x for x in (n.get('booster') or '').split(' | ') if x] or \
                    rs.get('preamp_variety_list') != [x for x in (n.get('preamp') or '').split(' | ') if x]:
                v('roadm-restrictions', f'{n["city"]}: {rs}')


def site_of(uid):
    for pre in ('roadm ', 'trx '):
        if uid.startswith(pre):
            return uid[len(pre):]
    if ' in ' in uid:
        rest = uid.split(' in ', 1)[1]
        return rest.split(' to ')[0]
    return None


def reaches(g, els, uid, site, forward=True):
    """walk from a line element along one-in/one-out elements until an element of another site is met"""
    seen = set()
    cur = uid
    start_site = site_of(uid)
    for _ in range(50):
        nxt = list(g.successors(cur) if forward else g.predecessors(cur)) if cur in g else []
        if len(nxt) != 1:
            return False
        cur = nxt[0]
        if cur in seen:
            return False
        seen.add(cur)
        s = site_of(cur)
        if s is not None and s != start_site:
            return s == site
    return False


# ---- services -------------------------------------------------------------------------------------------------------------
SERVICE_ROWS = {
    'plain': dict(id='s1', src='A', dst='C', trx='Voyager', mode='mode 1', spacing=50, bw=100),
    'no_mode_int_id': dict(id=7, src='A', dst='B', trx='Voyager', spacing=75, power=1.5, nch=40, bw=200.5),
    'path_strict': dict(id='s3', src='A', dst='C', trx='Voyager', mode='mode 1', spacing=50, path='A | B | C', loose='no', bw=100),
    'path_loose_ila': dict(id='s4', src='C', dst='A', trx='Voyager', mode='mode 1', spacing=50, path='B | I | A', loose='yes', bw=100),
    'disjoint': dict(id='s5', src='A', dst='C', trx='Voyager', mode='mode 1', spacing=50, disjoint='s1', bw=100),
    'disjoint_two': dict(id='s6', src='B', dst='C', trx='vendorA_trx-type1', mode='PS_SP64_1', spacing=50, disjoint='s1 | 7', bw=100),
    # a second row that is disjoint from the same request as 'disjoint': each row still gets its own group
    'disjoint_same_target': dict(id='s12', src='B', dst='C', trx='Voyager', mode='mode 1', spacing=50, disjoint='s1', bw=100),
    'neg_power': dict(id='s8', src='B', dst='A', trx='Voyager', mode='mode 1', spacing=62.5, power=-2.5, bw=100),
    # loose list whose first entry is not a site of the workbook (dropped), followed by a site that needs translation
    'loose_unknown_then_site': dict(id='s13', src='A', dst='C', trx='Voyager', mode='mode 1', spacing=50, path='Nowhere | B', loose='yes', bw=100),
    'blank_loose': dict(id='s9', src='A', dst='B', trx='Voyager', mode='mode 1', spacing=50, path='I | B', bw=100),
    'strict_ila_then_roadm': dict(id='s10', src='A', dst='C', trx='Voyager', mode='mode 1', spacing=50, path='I | B | C', loose='no', bw=100),
    'strict_fused_site': dict(id='s11', src='B', dst='C', trx='Voyager', mode='mode 1', spacing=50, path='F | C', loose='no', bw=100),
}
SERVICE_ERRORS = {
    'unknown_trx': dict(id='e1', src='A', dst='C', trx='Nope', mode='mode 1', spacing=50, bw=100),
    'unknown_mode': dict(id='e2', src='A', dst='C', trx='Voyager', mode='mode 99', spacing=50, bw=100),
    'no_spacing': dict(id='e3', src='A', dst='C', trx='Voyager', mode='mode 1', bw=100),
    'unknown_source': dict(id='e4', src='Z', dst='C', trx='Voyager', mode='mode 1', spacing=50, bw=100),
    'strict_unknown_node': dict(id='e5', src='A', dst='C', trx='Voyager', mode='mode 1', spacing=50, path='Q', loose='no', bw=100),
}


def judge_services(book, data, net, viol, where, tags):
    def v(fp, what):
        viol.append(dict(fingerprint=fp, what=f'{where}: {what}'))
    reqs = {r['request-id']: r for r in data['path-request']}
    if len(reqs) != len(book['service']) or len(data['path-request']) != len(book['service']):
        v('service-row-count', f'{len(book["service"])} rows, {len(data["path-request"])} requests')
    uids = {n.uid for n in net.nodes()}
    syncs = data.get('synchronization', [])
    exp_sync = 0
    for s in book['service']:
        rid = str(int(s['id'])) if isinstance(s['id'], (int, float)) else s['id']
        if rid not in reqs:
            v('service-request-missing', f'row {s["id"]!r}: ids {sorted(reqs)}')
            continue
        r = reqs[rid]
        te = r['path-constraints']['te-bandwidth']
        exp = {'source': f'trx {s["src"]}', 'destination': f'trx {s["dst"]}'}
        for k, val in exp.items():
            if r[k] != val:
                v(f'service-value:{k}', f'row {rid}: {r[k]!r} vs {val!r}')
        checks = [('trx_type', s['trx']), ('trx_mode', s.get('mode')), ('spacing', s['spacing'] * 1e9),
                  ('max-nb-of-channel', int(s['nch']) if s.get('nch') is not None else None),
                  ('output-power', 1e-3 * 10 ** (s['power'] / 10) if s.get('power') is not None else None),
                  ('path_bandwidth', s['bw'] * 1e9 if s.get('bw') is not None else 0)]
        for k, val in checks:
            got = te.get(k)
            same = got == val if not isinstance(val, float) or got is None else abs(got - val) <= 1e-12 * abs(val)
            if not same:
                v(f'service-value:{k}', f'row {rid}: {got!r}, the sheet says {val!r}')
        hops = r.get('explicit-route-objects', {}).get('route-object-include-exclude', [])
        if s.get('path'):
            names = s['path'].split(' | ')
            inner = [n for n in names]
            if inner and inner[0] == s['src']:
                pass
            strict = 'STRICT' if s.get('loose') == 'no' else 'LOOSE'
            if [h['num-unnum-hop']['hop-type'] for h in hops] != [strict] * len(hops):
                v('service-route-strictness', f'row {rid}: {[h["num-unnum-hop"]["hop-type"] for h in hops]} expected all {strict}')
            ids = [h['num-unnum-hop']['node-id'] for h in hops]
            if any(i not in uids for i in ids):
                v('service-route-unknown-element', f'row {rid}: {ids}')
            sites = [site_of(i) for i in ids]
            known_sites = {site_of(u) for u in uids} - {None}
            # names that are not sites of the workbook are dropped from a LOOSE list (a STRICT one is an error)
            want = [n for n in names if n not in (s['src'], s['dst']) and (strict == 'STRICT' or n in known_sites)]
            if [x for x in sites if x not in (s['src'], s['dst'])] != want:
                v('service-route-sites', f'row {rid}: route crosses sites {sites}, the sheet lists {names}')
            if [h['index'] for h in hops] != list(range(len(hops))):
                v('service-route-indices', f'row {rid}: {[h["index"] for h in hops]}')
            tags['service-route'] = 1
        elif hops:
            v('service-route-unexpected', f'row {rid}')
        if s.get('disjoint'):
            exp_sync += 1
            partners = [str(x) for x in str(s['disjoint']).split(' | ')]
            mine = [x for x in syncs if x['svec']['request-id-number'][0] == rid]
            if len(mine) != 1 or mine[0]['svec']['request-id-number'] != [rid] + partners:
                v('service-synchronisation', f'row {rid}: disjoint from {partners}, synchronisation entries '
                  f'{[x["svec"]["request-id-number"] for x in mine]}')
            tags['service-sync'] = 1
    if len(syncs) != exp_sync:
        v('service-synchronisation-count', f'{len(syncs)} entries for {exp_sync} rows with "disjoint from"')


def run_case(case):
    from pathlib import Path
    from gnpy.core.exceptions import NetworkTopologyError, ServiceError
    from gnpy.tools import convert, service_sheet
    viol = []
    tags = {}
    if case.get('kind') == 'shipped':
        return run_shipped(case)
    book = base_book(case.get('alt', False))
    for m in case.get('mut', []):
        MUT[m](book)
    where = f'workbook with {case.get("mut")}' + (f' + error {case["error"]}' if case.get('error') else '') + \
        (f' + services {case["services"]}' if case.get('services') else '')
    transitions = 1
    if case.get('error'):
        ERRORS[case['error']](book)
        try:
            convert_both(book)
            viol.append(dict(fingerprint=f'inconsistent-workbook-converted:{case["error"]}', what=f'{where}: no error raised'))
        except NetworkTopologyError:
            tags['error:' + case['error']] = 1
        except Exception as exc:  # noqa
            viol.append(dict(fingerprint=f'inconsistent-workbook-raised:{type(exc).__name__}', what=f'{where}: '
                             f'{type(exc).__name__}: {str(exc)[:150]} instead of a topology error'))
        for x in viol:
            x['case'] = case
        return {'violations': viol, 'transitions': 1, 'traces': 0 if viol else 1, 'nontrivial': True, 'tags': tags, 'sample': case}
    try:
        j1, j2 = convert_both(book)
    except Exception as exc:  # noqa
        fused = any(m.startswith('fused_degree') for m in case.get('mut', []))
        viol.append(dict(fingerprint=f'valid-workbook-raised:{type(exc).__name__}' + (':fused-site-degree' if fused else ''),
                         what=f'{where}: {type(exc).__name__}: {str(exc)[:200]}', case=case))
        return {'violations': viol, 'transitions': 1}
    if j1 != j2:
        from checks.c17 import diff_json
        viol.append(dict(fingerprint='xlsx-and-xls-paths-differ', what=f'{where}: {diff_json(j1, j2, tol=0)[:3]}'))
    judge(book, j1, viol, where, tags)
    # loaders + design
    net = None
    try:
        net, equipment, _, _ = c.design(copy.deepcopy(j1), c.eqpt_json('test'))
        transitions += 1
    except Exception as exc:  # noqa
        fused = any(m.startswith('fused_degree') for m in case.get('mut', []))
        viol.append(dict(fingerprint=f'converted-network-does-not-design:{type(exc).__name__}' + (':fused-site-degree' if fused else ''),
                         what=f'{where}: {type(exc).__name__}: {str(exc)[:200]}'))
    # services
    if case.get('services') is not None and net is not None:
        rows = [dict(SERVICE_ROWS.get(k) or SERVICE_ERRORS[k]) for k in case['services']]
        book['service'] = rows
        expect_error = any(k in SERVICE_ERRORS for k in case['services'])
        results = []
        for via in ('xlsx', 'xls'):
            try:
                if via == 'xlsx':
                    with tempfile.TemporaryDirectory(prefix='c20_') as tmp:
                        p = Path(tmp) / 'book.xlsx'
                        write_xlsx(book, p)
                        data = service_sheet.read_service_sheet(p, equipment, net, network_filename=p)
                else:
                    o1, o2 = service_sheet.generic_open_workbook, convert.generic_open_workbook
                    service_sheet.generic_open_workbook = convert.generic_open_workbook = lambda path: (FakeBook(book), False)
                    try:
                        data = service_sheet.read_service_sheet(Path('book.xls'), equipment, net, network_filename=Path('book.xls'))
                    finally:
                        service_sheet.generic_open_workbook, convert.generic_open_workbook = o1, o2
                results.append(data)
                transitions += 1
            except ServiceError as exc:
                results.append(('ServiceError', str(exc)[:80]))
            except Exception as exc:  # noqa
                results.append((type(exc).__name__, str(exc)[:120]))
        if expect_error:
            if not (isinstance(results[0], tuple) and results[0][0] == 'ServiceError'):
                viol.append(dict(fingerprint='invalid-service-row-accepted', what=f'{where}: {str(results[0])[:150]}'))
            else:
                tags['service-error'] = 1
        else:
            if isinstance(results[0], tuple):
                viol.append(dict(fingerprint=f'valid-service-sheet-raised:{results[0][0]}', what=f'{where}: {results[0][1]}'))
            else:
                judge_services(book, results[0], net, viol, where, tags)
                if results[0] != results[1]:
                    viol.append(dict(fingerprint='service-xlsx-and-xls-paths-differ', what=f'{where}: {str(results[1])[:120]}'))
                try:
                    from gnpy.tools.json_io import requests_from_json
                    requests_from_json(copy.deepcopy(results[0]), equipment)
                except Exception as exc:  # noqa
                    viol.append(dict(fingerprint=f'service-json-does-not-load:{type(exc).__name__}', what=f'{where}: {str(exc)[:150]}'))
    for x in viol:
        x.setdefault('case', case)
    return {'violations': viol[:8], 'transitions': transitions, 'traces': 0 if viol else 1, 'nontrivial': bool(case.get('mut')),
            'tags': tags, 'outcomes': sorted(tags), 'sample': case}


def run_shipped(case):
    """a workbook shipped with the repository, converted from the real .xls file by the real xlrd code path, judged with the
    same reference model on a description read independently with xlrd"""
    from pathlib import Path
    from gnpy.tools import convert
    viol, tags = [], {}
    path = os.path.join(engine.REPO, case['file'])
    where = f'shipped workbook {case["file"]}'
    book = book_from_xls(path)
    if not book['nodes'] or not book['links']:
        return {'status': 'unjudged', 'unjudged': 1, 'tags': {'shipped-without-topology': 1}, 'sample': case, 'transitions': 0}
    try:
        j = convert.xls_to_json_data(Path(path))
    except Exception as exc:  # noqa
        return {'violations': [dict(fingerprint=f'shipped-workbook-raised:{type(exc).__name__}', what=f'{where}: {str(exc)[:200]}',
                                    case=case)], 'transitions': 1}
    judge(book, j, viol, where, tags)
    tags['shipped-xls'] = 1
    tags['shipped-sites'] = len(book['nodes'])
    for x in viol:
        x.setdefault('case', case)
    return {'violations': viol[:8], 'transitions': 1, 'traces': 0 if viol else 1, 'nontrivial': True, 'tags': tags,
            'outcomes': sorted(k for k in tags if not k.startswith('shipped')), 'sample': case}


INCOMPATIBLE = [('blank_type', 'unknown_type'), ('ila_degree3', 'fused_degree3'), ('eqpt_ila', 'eqpt_ila_towards_first'),
                ('link_reversed_order', 'eqpt_ila'), ('link_reversed_order', 'eqpt_roadm_both'), ('west_partial', 'link_reversed_order'),
                ('east_connectors_pmd', 'link_reversed_order'), ('roadm_rows', 'link_reversed_order')]


def main(rep, tier, seed):
    d = 3 if tier == 'quick' else 4
    names = list(MUT)
    cases = []
    for k in range(0, d + 1):
        for combo in itertools.combinations(names, k):
            if any(a in combo and b in combo for a, b in INCOMPATIBLE):
                continue
            cases.append({'mut': list(combo)})
    for e in ERRORS:
        cases.append({'mut': [], 'error': e})
        cases.append({'mut': ['west_values', 'coordinates'], 'error': e})
    srows = list(SERVICE_ROWS)
    for k in (1, 2, 3, 4):
        for ci, combo in enumerate(itertools.combinations(srows, k)):
            if k == 4 and tier == 'quick' and (ci + seed) % 5:
                continue
            cases.append({'mut': ['eqpt_ila'] if k == 2 else [], 'services': list(combo)})
            if k <= 2:
                # the same rows on a workbook whose first link has its own west values (other cable id, length, connectors)
                cases.append({'mut': ['west_values'], 'services': list(combo)})
    cases.append({'mut': [], 'services': srows})
    for combo in (['strict_ila_then_roadm'], ['blank_loose'], ['path_loose_ila', 'plain'], ['strict_ila_then_roadm', 'path_strict']):
        cases.append({'mut': [], 'alt': True, 'services': combo})
    for e in SERVICE_ERRORS:
        cases.append({'mut': [], 'services': ['plain', e]})
    for f in SHIPPED:
        if os.path.exists(os.path.join(engine.REPO, f)):
            cases.append({'kind': 'shipped', 'file': f})
    results, stats = engine.run_pool('checks.c20', cases, horizon=300)
    rep.absorb(results)
    rep.cov['bound'] = (f'all combinations of <= {d} of {len(MUT)} workbook mutators on a 5-site base workbook (ROADM, ILA, FUSED sites); '
                        f'{len(ERRORS)} error workbooks x 2 contexts; the topology sheets of the .xls workbooks shipped with the repository through the real xlrd path; service sheets with every 1-3 (and {"a fifth of the" if tier == "quick" else "every"} 4-) row '
                        f'subsets of {len(SERVICE_ROWS)} row kinds and {len(SERVICE_ERRORS)} invalid rows')
    rep.cov['space_size'] = len(cases)
    rep.cov['exhaustive'] = not stats['budget_hit'] and len(results) == len(cases)
    rep.cov['rule'] = ('a case = one workbook written as .xlsx (openpyxl) and converted by xls_to_json_data / read_service_sheet, and '
                       'the same content through an object implementing the xlrd sheet API; oracle: reference model of '
                       'docs/excel.rst on the JSON and its graph (sites, fibres with west defaulting to east, wiring, Eqpt rows on the '
                       'amplifier facing the named neighbour, per-degree targets, restrictions), error workbooks raise a topology '
                       'error, the result loads and auto-designs, service rows become requests with converted units, route, '
                       'strictness and one synchronisation entry per "disjoint from". transitions = conversions + designs.')
    rep.require(rep.tags.get('shipped-xls', 0) >= 3, 'the shipped .xls workbooks were not converted through the real xlrd path')
    rep.assumptions += ['the Service sheets of the shipped workbooks are not judged (their cells use conventions - numeric ids, '
                        'element names in route lists - that the reference model of the generated sheets does not cover)',
                        'the value of a blank Con_in/Con_out/PMD cell is not judged (docs and code disagree; the property speaks of the '
                        'sheet\'s values)', 'the xlrd parser is exercised on the workbooks shipped with the repository only (no .xls writer offline): each is read '
                        'a second time, independently, with xlrd to build the description the reference model judges']
    for k in ('two-sided-link', 'eqpt-rows', 'service-route', 'service-sync', 'service-error'):
        rep.require(rep.tags.get(k, 0) >= 1, f'{k} never exercised')
    rep.require(sum(1 for k in rep.tags if k.startswith('error:')) >= len(ERRORS) - 1, 'documented errors not all raised')
