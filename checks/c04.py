"""C04 - amplifier applies its set gain, the quantum-limited ASE, and never exceeds p_max; NF follows the model.

Deviation-bounded enumeration over (amplifier model of the shipped libraries x gain x tilt x VOAs x comb x input level x
input noise x out-of-band channels), real Edfa elements built by network_from_json, real Edfa.__call__.
Oracle: independent re-implementation of the clamp, h*f*B*NF and the NF models from the library documents.
"""
import math

from mc import engine
from checks import common as c

H = 6.62607015e-34

LIBS = {'example': 'eqpt_config.json', 'test': 'test'}
SPACE = {
    'gain': ['mid', 'min-3', 'min', 'flatmax', 'flatmax+2'],
    'tilt': [0.0, -1.5, 2.0],
    'in_voa': [None, 2.0],
    'out_voa': [0.0, 1.5],
    'comb': ['u8', 'one', 'two', 'mixed8', 'u96', 'u40_100', 'u60_75'],
    'level': [-25.0, -35.0, -10.0, 0.0, 5.0],
    'shape': ['flat', 'ramp'],
    'noise': [False, True],
    'oob': [False, 'outside', 'straddle'],
    # the amplifier object has already amplified another comb (same channel count, mirrored frequencies, other level)
    'warm': [False, True],
}


def lib_json(lib):
    """equipment JSON of a library key; the example library gets dual-stage models built from advanced (polynomial NF)
    stages in every position, which the shipped libraries do not contain"""
    eq = c.eqpt_json(LIBS[lib])
    if lib == 'example':
        eq['Edfa'] += [
            {'type_variety': 'adv_pre_low', 'type_def': 'advanced_model', 'gain_flatmax': 12, 'gain_min': 8, 'p_max': 21,
             'advanced_config_from_json': 'std_medium_gain_advanced_config.json', 'out_voa_auto': False,
             'allowed_for_design': False},
            {'type_variety': 'dual_adv_adv', 'type_def': 'dual_stage', 'gain_min': 20, 'preamp_variety': 'adv_pre_low',
             'booster_variety': 'Juniper_BoosterHG', 'allowed_for_design': False},
            {'type_variety': 'dual_vg_adv', 'type_def': 'dual_stage', 'gain_min': 20, 'preamp_variety': 'std_low_gain',
             'booster_variety': 'high_detail_model_example', 'allowed_for_design': False},
            {'type_variety': 'dual_adv_vg', 'type_def': 'dual_stage', 'gain_min': 20, 'preamp_variety': 'adv_pre_low',
             'booster_variety': 'std_medium_gain', 'allowed_for_design': False}]
    return eq


def models():
    out = []
    for lib, name in LIBS.items():
        eq = lib_json(lib)
        for e in eq['Edfa']:
            if e.get('type_def') == 'multi_band':
                continue
            out.append((lib, e['type_variety']))
    return out


def document_band(eq, ent):
    """band of a model from the documents: the library entry's own f_min/f_max, else those of its advanced-config file, else the
    documented default; a dual stage takes the band of its booster stage"""
    import json
    import os
    if ent.get('type_def') == 'dual_stage':
        return None          # not judged: the documents do not say which stage's band a dual stage takes
    if 'f_min' in ent and 'f_max' in ent:
        return (ent['f_min'], ent['f_max'])
    fn = ent.get('advanced_config_from_json')
    if fn:
        for d in (os.path.join(engine.REPO, 'gnpy', 'example-data'), os.path.join(engine.VERIF, 'data')):
            if os.path.exists(os.path.join(d, fn)):
                cfg = json.load(open(os.path.join(d, fn)))
                if 'f_min' in cfg and 'f_max' in cfg:
                    return (cfg['f_min'], cfg['f_max'])
    return (191.275e12, 196.125e12)


def lib_entry(eq, variety):
    return next(e for e in eq['Edfa'] if e['type_variety'] == variety)


def gain_range(eq, ent):
    """(gain_min, gain_flatmax) of a model, dual stage = sum of stages' flatmax (documented)"""
    if ent.get('type_def') == 'dual_stage':
        p, b = lib_entry(eq, ent['preamp_variety']), lib_entry(eq, ent['booster_variety'])
        return ent.get('gain_min', p['gain_min'] + b['gain_min']), p['gain_flatmax'] + b['gain_flatmax']
    return ent['gain_min'], ent['gain_flatmax']


def p_max(eq, ent):
    if ent.get('type_def') == 'dual_stage':
        return lib_entry(eq, ent['booster_variety'])['p_max']
    return ent['p_max']


def gain_value(eq, ent, sym):
    gmin, gmax = gain_range(eq, ent)
    return {'mid': (gmin + gmax) / 2, 'min-3': gmin - 3, 'min': gmin, 'flatmax': gmax, 'flatmax+2': gmax + 2}[sym]


def comb(name, level, shape, noise, oob, band=(191.275e12, 196.125e12)):
    import numpy as np
    from gnpy.core.info import SpectralInformation
    if name == 'u8':
        f = [193.0e12 + i * 50e9 for i in range(8)]; baud = [32e9] * 8; slot = [50e9] * 8    # noqa
    elif name == 'one':
        f = [193.5e12]; baud = [32e9]; slot = [50e9]    # noqa
    elif name == 'two':
        f = [192.0e12, 195.0e12]; baud = [32e9, 64e9]; slot = [50e9, 75e9]    # noqa
    elif name == 'mixed8':
        f, baud, slot = [], [], []
        edge = 192.5e12
        for i in range(8):
            b, s = [(32e9, 50e9), (64e9, 75e9), (16e9, 25e9)][i % 3]
            f.append(edge + s / 2); baud.append(b); slot.append(s); edge += s    # noqa
    elif name == 'u96':
        f = [191.35e12 + i * 50e9 for i in range(95)]; baud = [32e9] * 95; slot = [50e9] * 95    # noqa
    elif name == 'u40_100':
        f = [191.4e12 + i * 100e9 for i in range(40)]; baud = [64e9] * 40; slot = [100e9] * 40    # noqa
    elif name == 'u60_75':
        f = [191.4e12 + i * 75e9 for i in range(60)]; baud = [64e9] * 60; slot = [75e9] * 60    # noqa
    else:
        raise ValueError(name)
    if oob == 'outside':
        # one channel entirely below and one entirely above the amplifier band
        f = [band[0] - 375e9] + f + [band[1] + 475e9]
        baud = [32e9] + baud + [32e9]
        slot = [50e9] + slot + [50e9]
    elif oob == 'straddle':
        # edge channels whose centre is inside the band but whose slot crosses the band limit, plus one exactly on it
        keep = [i for i in range(len(f)) if f[i] - slot[i] / 2 >= band[0] + 100e9 and f[i] + slot[i] / 2 <= band[1] - 100e9]
        f = [band[0] + 10e9, band[0] + 75e9] + [f[i] for i in keep] + [band[1] - 75e9, band[1] - 10e9]
        baud = [32e9, 32e9] + [baud[i] for i in keep] + [32e9, 32e9]
        slot = [50e9, 50e9] + [slot[i] for i in keep] + [50e9, 50e9]
    n = len(f)
    p = np.full(n, level) + (np.linspace(-2.0, 2.0, n) if shape == 'ramp' and n > 1 else 0.0)
    pch = 1e-3 * 10 ** (p / 10)
    if noise:
        sr, ar, nr = np.full(n, 0.90), np.full(n, 0.07), np.full(n, 0.03)
    else:
        sr, ar, nr = np.ones(n), np.zeros(n), np.zeros(n)
    return SpectralInformation(
        frequency=np.array(f), baud_rate=np.array(baud), slot_width=np.array(slot), pch=pch, signal_ratio=sr,
        ase_ratio=ar, nli_ratio=nr, roll_off=np.full(n, 0.1), chromatic_dispersion=np.zeros(n), pmd=np.full(n, 1e-12),
        pdl=np.full(n, 0.2), latency=np.zeros(n), delta_pdb_per_channel=np.zeros(n), tx_osnr=np.full(n, 40.0),
        tx_power=np.full(n, 1e-3), label=np.full(n, 'x'))


def db2lin(x):
    return 10 ** (x / 10)


def lin2db(x):
    return 10 * math.log10(x)


# ---- independent NF models (from docs/amplifier_models_description.rst and the library documents) ------------------
def vg_coeffs(ent):
    gmin, gmax, nfmin, nfmax = ent['gain_min'], ent['gain_flatmax'], ent['nf_min'], ent['nf_max']
    dp = 5.0
    g1a_min = gmin - (gmax - gmin) - dp
    g1a_max = gmax - dp
    nf2 = lin2db((db2lin(nfmin) - db2lin(nfmax)) / (1 / db2lin(g1a_max) - 1 / db2lin(g1a_min)))
    nf1 = lin2db(db2lin(nfmin) - db2lin(nf2) / db2lin(g1a_max))
    if not nf1 + 0.3 < nf2 < nf1 + 2:
        nf2 = min(max(nf2, nf1 + 0.3), nf1 + 2)
        g1a_max = lin2db(db2lin(nf2) / (db2lin(nfmin) - db2lin(nf1)))
        dp = gmax - g1a_max
    return nf1, nf2, dp


def nf_single(ent, gain, pin_ch_50=None, adv=None):
    """average NF (dB, incl. the below-gain_min padding) of a single-stage model at gain `gain`"""
    td = ent.get('type_def', 'variable_gain')
    gmin, gmax = ent['gain_min'], ent['gain_flatmax']
    pad = max(gmin - gain, 0.0)
    g = gain + pad
    dg = max(gmax - g, 0.0)
    if td == 'variable_gain':
        nf1, nf2, dp = vg_coeffs(ent)
        return lin2db(db2lin(nf1) + db2lin(nf2) / db2lin(g - dp - dg)) + pad
    if td == 'fixed_gain':
        return ent['nf0'] + pad
    if td == 'openroadm':
        a = ent['nf_coef']
        osnr = ((a[0] * pin_ch_50 + a[1]) * pin_ch_50 + a[2]) * pin_ch_50 + a[3]
        return pin_ch_50 - osnr + 58 + pad
    if td == 'openroadm_preamp':
        return pin_ch_50 - min((4 * pin_ch_50 + 275) / 7, 33) + 58 + pad
    if td == 'openroadm_booster':
        return -math.inf
    if td == 'advanced_model':
        co = adv['nf_fit_coeff']
        x = -dg
        val = 0.0
        for k in co:
            val = val * x + k
        return val + pad
    raise ValueError(td)


def interp_lin(x, xs, ys):
    if x <= xs[0]:
        return ys[0]
    if x >= xs[-1]:
        return ys[-1]
    for i in range(len(xs) - 1):
        if xs[i] <= x <= xs[i + 1]:
            t = (x - xs[i]) / (xs[i + 1] - xs[i])
            return ys[i] + t * (ys[i + 1] - ys[i])
    raise AssertionError


def adv_config(ent):
    import json
    import os
    name = ent['advanced_config_from_json']
    p = os.path.join(c.EXAMPLE, name)
    if not os.path.exists(p):
        p = os.path.join(c.DATA, name)
    with open(p) as f:
        d = json.load(f)
    # YANG-formatted file? (nf_fit_coeff etc. at top level in legacy)
    return d


def expected_nf(eq, ent, g_eff, pin_tot_dbm, nch, spacing, freqs, band):
    """per-channel NF in dB or None when not judged"""
    td = ent.get('type_def', 'variable_gain')
    pin50 = None
    if td in ('openroadm', 'openroadm_preamp'):
        if spacing is None:
            return None
        pin50 = pin_tot_dbm - lin2db(nch) + lin2db(50e9 / spacing)
    if td == 'dual_stage':
        p, b = lib_entry(eq, ent['preamp_variety']), lib_entry(eq, ent['booster_variety'])
        adv_p = adv_config(p) if p.get('type_def') == 'advanced_model' else None
        adv_b = adv_config(b) if b.get('type_def') == 'advanced_model' else None
        if any(a is not None and 'nf_fit_coeff' not in a for a in (adv_p, adv_b)):
            return None
        g1 = p['gain_flatmax']
        nf1 = nf_single(p, g1, adv=adv_p)
        # second stage: NF of the booster model at g2 (without padding: total padding is 0 for dual stage)
        g2 = g_eff - g1
        pad2 = max(b['gain_min'] - g2, 0.0)
        nf2 = nf_single(b, g2, adv=adv_b)
        nf = lin2db(db2lin(nf1) + db2lin(nf2 - g1))
        return [nf] * len(freqs)
    if td == 'advanced_model':
        adv = adv_config(ent)
        if 'nf_fit_coeff' not in adv:
            return None
        base = nf_single(ent, g_eff, adv=adv)
        rip = adv['nf_ripple']
        n = len(rip)
        xs = [band[0] + i * (band[1] - band[0]) / (n - 1) for i in range(n)] if n > 1 else [band[0]]
        return [base + (interp_lin(f, xs, rip) if n > 1 else rip[0]) for f in freqs]
    return [nf_single(ent, g_eff, pin_ch_50=pin50)] * len(freqs)


def build_amp(eq, variety, gain, tilt, in_voa, out_voa):
    equipment = c.make_equipment(eq)
    op = {'gain_target': gain, 'tilt_target': tilt, 'out_voa': out_voa}
    if in_voa is not None:
        op['in_voa'] = in_voa
    topo = c.build_topology(['A', 'B'], [('A', 'B', [dict(c.edfa(variety), operational=op)], None)])
    net = c.load_network(topo, equipment)
    return c.node(net, 'A>B:0:Edfa')


def run_case(case):
    import numpy as np
    from gnpy.core.exceptions import EquipmentConfigError, ConfigurationError
    viol = []

    def v(fp, what, **kw):
        viol.append(dict(fingerprint=fp, what=what, observed=kw, case=case))
    eq = lib_json(case['lib'])
    ent = lib_entry(eq, case['model'])
    if case['kind'] == 'sweep':
        return run_sweep(case, eq, ent, v, viol)
    gain = gain_value(eq, ent, case['gain'])
    try:
        amp = build_amp(eq, case['model'], gain, case['tilt'], case['in_voa'], case['out_voa'])
    except (EquipmentConfigError, ConfigurationError) as exc:
        return {'status': 'rejected', 'tags': {'build-rejected': 1}}
    band = (amp.params.f_min, amp.params.f_max)
    doc_band = document_band(eq, ent)
    if doc_band is not None and (abs(band[0] - doc_band[0]) > 1 or abs(band[1] - doc_band[1]) > 1):
        v('amplifier-band-differs-from-documents', f'{case["model"]}: the built amplifier works on {band[0] / 1e12}-{band[1] / 1e12} THz, '
          f'its library entry / advanced configuration file declare {doc_band[0] / 1e12}-{doc_band[1] / 1e12} THz')
        return {'violations': viol, 'transitions': 1}
    si = comb(case['comb'], case['level'], case['shape'], case['noise'], case['oob'], band)
    pre = c.snap(si)
    where = (f'{case["model"]} gain={gain} tilt={case["tilt"]} in_voa={case["in_voa"]} out_voa={case["out_voa"]} comb='
             f'{case["comb"]} level={case["level"]} {case["shape"]} noise={case["noise"]} oob={case["oob"]}')
    try:
        if case.get('warm'):
            from gnpy.core.info import create_arbitrary_spectral_information
            order = np.argsort(band[0] + band[1] - pre['f'])
            warm = create_arbitrary_spectral_information(
                frequency=(band[0] + band[1] - pre['f'])[order], pch=pre['pch'][order] * 0.5, baud_rate=pre['baud'][order],
                slot_width=pre['slot'][order], tx_osnr=40.0, tx_power=1e-3, roll_off=0.1, label='w')
            amp(warm)
            where += ' (amplifier used before on the mirrored comb)'
        out = amp(si)
    except Exception as exc:  # noqa
        v(f'amplifier-raised:{type(exc).__name__}', f'{where}: {type(exc).__name__}: {exc}')
        return {'violations': viol, 'transitions': 1}
    post = c.snap(out)
    tags = {}
    # ---- channel set: exactly the channels whose slot lies inside the amplifier band, each once, in order
    keep = [i for i in range(len(pre['f'])) if pre['f'][i] - pre['slot'][i] / 2 >= band[0] and
            pre['f'][i] + pre['slot'][i] / 2 <= band[1]]
    if list(post['f']) != [pre['f'][i] for i in keep]:
        v('amplified-channel-set', f'{where}: output channels {list(post["f"])} expected in-band {[pre["f"][i] for i in keep]}')
        return {'violations': viol, 'transitions': 1}
    if len(keep) < len(pre['f']):
        tags['out-of-band-dropped'] = 1
    idx = np.array(keep)
    voa_in = db2lin(-(case['in_voa'] or 0.0))
    pin = pre['pch'][idx] * voa_in
    sig_in = pin * pre['sr'][idx]
    ase_in = pin * pre['ar'][idx]
    nli_in = pin * pre['nr'][idx]
    pin_tot_dbm = lin2db(pin.sum()) + 30
    pm = p_max(eq, ent)
    g_eff = min(gain, pm - pin_tot_dbm)
    if g_eff < gain:
        tags['saturated'] = 1
    gmin, gmax = gain_range(eq, ent)
    if gain < gmin or gain > gmax:
        tags['gain-outside-range'] = 1
    if case['tilt'] != 0:
        tags['tilt'] = 1
    sig_out = post['pch'] * post['sr']
    ase_out = post['pch'] * post['ar']
    nli_out = post['pch'] * post['nr']
    g = sig_out / sig_in                        # per-channel net gain (after the output VOA)
    # NLI is only amplified
    if not np.allclose(nli_out, nli_in * g, rtol=1e-9, atol=1e-30):
        v('amplifier-changed-nli-share', f'{where}: NLI not simply amplified')
    # reported effective gain
    if not math.isclose(amp.effective_gain, g_eff, rel_tol=0, abs_tol=1e-9):
        v('effective-gain', f'{where}: effective_gain {amp.effective_gain!r}, expected min(set gain, p_max - Pin) = {g_eff!r}',
          got=amp.effective_gain, expected=g_eff)
    # total gain: sum(pch_in * g_profile) == Pin,tot * G_eff  (g_profile = g before the output VOA)
    gp = g * db2lin(case['out_voa'])
    tot_gain_db = lin2db(float((pin * gp).sum() / pin.sum()))
    flat = bool(np.allclose(gp, gp[0], rtol=1e-12))
    tol = 1e-9 if flat else 0.02
    if abs(tot_gain_db - g_eff) > tol:
        v('total-gain' + ('' if flat else ':tilted'), f'{where}: total power raised by {tot_gain_db:.6f} dB, effective gain '
          f'{g_eff:.6f} dB (tolerance {tol})', got=tot_gain_db, expected=g_eff)
    if lin2db(float((pin * gp).sum())) + 30 > pm + tol:
        v('p_max-exceeded', f'{where}: amplified input power {lin2db(float((pin * gp).sum())) + 30:.4f} dBm > p_max {pm}')
    # ASE: added noise referred to the input = h f B NF
    added = ase_out / g - ase_in
    spacing = None
    if len(keep) > 1:
        d = np.diff(post['f'])
        if np.allclose(d, d[0], rtol=1e-9) and np.allclose(post['slot'], d[0], rtol=1e-9):
            spacing = float(d[0])
    elif len(keep) == 1:
        spacing = float(post['slot'][0])
    nf_exp = expected_nf(eq, ent, g_eff, pin_tot_dbm, len(keep), spacing, list(post['f']), band)
    judged_nf = nf_exp is not None
    if judged_nf:
        exp_added = np.array([H * f * b * db2lin(n) if n > -math.inf else 0.0
                              for f, b, n in zip(post['f'], post['baud'], nf_exp)])
        scale = np.maximum(exp_added + ase_in, 1e-300)
        if (np.abs(added - exp_added) / scale > 1e-6).any():
            i = int(np.argmax(np.abs(added - exp_added) / scale))
            got_nf = lin2db(added[i] / (H * post['f'][i] * post['baud'][i])) if added[i] > 0 else -math.inf
            v(f'ase-not-hfB-NF:{ent.get("type_def", "variable_gain")}',
              f'{where}: channel {post["f"][i] / 1e12:.4f} THz added ASE {added[i]:.6e} W (NF {got_nf:.4f} dB), '
              f'expected h*f*B*NF = {exp_added[i]:.6e} W (NF {nf_exp[i]:.4f} dB)', got=float(added[i]), expected=float(exp_added[i]))
        tags['nf-judged:' + ent.get('type_def', 'variable_gain')] = 1
    else:
        # still: added noise must be non-negative and scale with h f B (same NF for equal ripple) -> only sign here
        if (added < -1e-9 * np.maximum(ase_in, 1e-30)).any():
            v('negative-ase', f'{where}: amplifier removed ASE')
        tags['nf-unjudged'] = 1
    # PMD / PDL in quadrature
    pmd_a = ent.get('pmd', 0.0) if ent.get('type_def') != 'dual_stage' else None
    for x in viol:
        x.setdefault('case', case)
    nontriv = any(k in tags for k in ('saturated', 'gain-outside-range', 'tilt', 'out-of-band-dropped'))
    return {'violations': viol[:6], 'transitions': 1, 'traces': 0 if viol else 1, 'nontrivial': nontriv, 'tags': tags,
            'unjudged': 0 if judged_nf else 1, 'outcomes': [ent.get('type_def', 'variable_gain')],
            'sample': {k: case[k] for k in case if k != 'kind'}}


def run_sweep(case, eq, ent, v, viol):
    """NF versus gain for min/max-NF (variable_gain) models: end points, monotone, dB-for-dB below gain_min"""
    import numpy as np
    gmin, gmax = ent['gain_min'], ent['gain_flatmax']
    grid = [gmin - 3 + 0.5 * k for k in range(int((gmax + 2 - (gmin - 3)) / 0.5) + 1)]
    nfs = []
    for g in grid:
        amp = build_amp(eq, case['model'], g, 0.0, None, 0.0)
        si = comb('u8', -30.0, 'flat', False, False)
        pre = c.snap(si)
        out = amp(si)
        post = c.snap(out)
        gg = (post['pch'] * post['sr']) / (pre['pch'] * pre['sr'])
        added = post['pch'] * post['ar'] / gg
        nfs.append(float(np.mean(10 * np.log10(added / (H * post['f'] * post['baud'])))))
    d = dict(zip(grid, nfs))
    where = f'{case["model"]} (gain_min {gmin}, flatmax {gmax}, nf_min {ent["nf_min"]}, nf_max {ent["nf_max"]})'
    if abs(d[gmax] - ent['nf_min']) > 0.0101:
        v('nf-at-flatmax', f'{where}: NF at maximum flat gain {d[gmax]:.4f} dB != nf_min')
    if abs(d[gmin] - ent['nf_max']) > 0.0101:
        v('nf-at-gain-min', f'{where}: NF at minimum gain {d[gmin]:.4f} dB != nf_max')
    for a, b in zip(grid, grid[1:]):
        if d[b] > d[a] + 1e-9:
            v('nf-increases-with-gain', f'{where}: NF({b}) = {d[b]:.4f} > NF({a}) = {d[a]:.4f}')
            break
    for g in grid:
        if g < gmin and abs(d[g] - (d[gmin] + (gmin - g))) > 1e-9:
            v('nf-below-gain-min', f'{where}: NF({g}) = {d[g]:.6f}, expected NF(gain_min) + {gmin - g} = {d[gmin] + gmin - g:.6f}')
            break
    return {'violations': viol, 'transitions': len(grid), 'traces': 0 if viol else 1, 'nontrivial': True,
            'tags': {'nf-sweep': 1}, 'sample': {'model': case['model'], 'nf_vs_gain': [round(x, 3) for x in nfs][:8]}}


def main(rep, tier, seed):
    sp = engine.Space(SPACE)
    d = 3 if tier == 'quick' else 4
    mods = models()
    cases = []
    for lib, m in mods:
        for x in sp.enumerate(d):
            cases.append(dict(kind='amp', lib=lib, model=m, **{k: x[k] for k in SPACE}))
        ent = lib_entry(lib_json(lib), m)
        if ent.get('type_def', 'variable_gain') == 'variable_gain':
            cases.append(dict(kind='sweep', lib=lib, model=m))
    results, stats = engine.run_pool('checks.c04', cases, horizon=120)
    rep.absorb(results)
    rep.cov['bound'] = (f'{len(mods)} amplifier models (every non-multiband entry of example-data/eqpt_config.json and of the '
                        f'vendored test library) x all operating points within {d} deviations of the base over {list(SPACE)}; '
                        'NF-vs-gain sweep (0.5 dB grid) for every min/max-NF model')
    rep.cov['space_size'] = len(cases)
    rep.cov['exhaustive'] = not stats['budget_hit'] and len(results) == len(cases)
    rep.cov['rule'] = ('a case = one real Edfa built by network_from_json and one crossing; oracle: G_eff = min(G_set, p_max - '
                       'Pin,tot), total gain (exact when flat, 0.02 dB with tilt/ripple), added ASE = h f B NF(model), channel '
                       'set = in-band channels. Non-trivial: saturated, gain outside [gain_min, flatmax], tilt != 0 or '
                       'out-of-band channels present. OpenROADM NF judged on uniform combs only; dual-stage/advanced models '
                       'with data the oracle cannot read are counted unjudged for the NF clause.')
    rep.assumptions += ['Planck constant 6.62607015e-34; NF models re-implemented from docs/amplifier_models_description.rst',
                        'per-channel ripple is a property of the model: total gain is compared, not per-channel gain']
    for t in ('saturated', 'gain-outside-range', 'tilt', 'out-of-band-dropped'):
        rep.require(rep.tags.get(t, 0) >= 5, f'non-triviality class {t} observed fewer than 5 times')
    rep.require(rep.tags.get('nf-sweep', 0) >= 3, 'fewer than 3 NF sweeps')
