"""C11 - every computed route is a real, loop-free, constraint-respecting shortest path.

All connected site graphs on 3-5 ROADM sites up to isomorphism x length assignments (ties / distinct / long shortcut / near ties between split fibres) x
link styles (plain, in-line amplifier, fused) x every ordered (source, destination) pair x every ordered include list of
<= 2 (thorough: 3) nodes drawn from {ROADMs, line elements of two links, unknown name, a transceiver} x hop types.
Real requests_from_json -> correct_json_route_list -> compute_path_dsjctn on the designed network with OMS built (as
planning() does); independent brute-force oracle (own DFS, own ordered-subsequence test).
Batches of two requests between the same transceivers (every ordered pair of short include lists x hop types: twins that
differ only in hop type or in the order of the nodes) through requests_aggregation + compute_path_dsjctn, each judged on its
own list; complete element lists of routes (>= 11 route objects) as STRICT include lists.
"""
import itertools

from mc import engine
from checks import common as c
from checks import reqgen as rg

HOPS = ['STRICT', 'LOOSE', 'MIXED']


def candidates(net, topo):
    """include-node alphabet of a network: all ROADMs, one amplifier + one fibre (+ fused) of the first link in both
    directions and of the last link, a name that does not exist, and a transceiver that is neither source nor destination"""
    from gnpy.core.elements import Roadm, Transceiver
    uids = [n.uid for n in net.nodes() if isinstance(n, Roadm)]
    line = [e['uid'] for e in topo['elements'] if e['type'] in ('Fiber', 'Fused', 'Edfa')]
    firsts = [u for u in line if u.startswith('A>B:') or u.startswith('B>A:')]
    last_prefix = sorted({u.split(':')[0] for u in line})[-1]
    lasts = [u for u in line if u.startswith(last_prefix + ':')][:2]
    auto = sorted(n.uid for n in net.nodes() if n.uid.startswith('Edfa_booster_roadm A') or n.uid.startswith('Edfa_preamp_roadm A'))[:2]
    return uids + firsts[:4] + lasts + auto + ['roadm Nowhere']


def judge(ctx, where, rq, path, src, dst, eff):
    """compare the route returned for one request with the brute-force enumeration; returns True when a trace agreed"""
    net, paths, shortest, viol, tags = ctx['net'], ctx['all_paths'][(src, dst)], ctx['shortest'][(src, dst)], ctx['viol'], ctx['tags']
    ok = False
    inc_uids = [u for u, _ in eff]
    strict = [h for _, h in eff]
    sat = [(p, L) for p, L in paths if rg.contains_in_order(p, inc_uids)]
    reason = getattr(rq, 'blocking_reason', None)
    if sat:
        best = min(L for _, L in sat)
        if not path:
            viol.append(dict(fingerprint='blocked-although-route-exists', what=f'{where}: blocked ({reason}) although '
                             f'{sat[0][0]} satisfies the constraints'))
            return False
        probs = rg.valid_path(net, path, src, dst)
        uids = [e.uid for e in path]
        if probs:
            viol.append(dict(fingerprint='invalid-route', what=f'{where}: route {uids} {probs[0]}'))
            return False
        if not rg.contains_in_order(uids, inc_uids):
            viol.append(dict(fingerprint='include-constraint-ignored:' + ('line-element+roadm' if any(
                not u.startswith('roadm') for u in inc_uids) else 'roadm'),
                what=f'{where}: route {[u for u in uids if u.startswith("roadm")]} does not cross {inc_uids} in order '
                     f'although a satisfying route exists'))
            return False
        L = rg.fibre_length(path)
        if L > best + 0.01 * len(path) + 1e-6:
            viol.append(dict(fingerprint='route-not-shortest', what=f'{where}: route of {L / 1e3:.3f} km, shortest '
                             f'satisfying route {best / 1e3:.3f} km'))
            return False
        if inc_uids and best > shortest:
            tags['constraint-changes-route'] = 1
        ok = True
    else:
        if all(h == 'STRICT' for h in strict):
            if path or reason != 'NO_PATH_WITH_CONSTRAINT':
                viol.append(dict(fingerprint='unsatisfiable-strict-not-blocked', what=f'{where}: expected '
                                 f'NO_PATH_WITH_CONSTRAINT, got reason {reason} route {[e.uid for e in path][:6]}'))
                return False
            tags['blocked'] = 1
            ok = True
        elif all(h == 'LOOSE' for h in strict):
            if not path:
                viol.append(dict(fingerprint='loose-unsatisfiable-blocked', what=f'{where}: blocked ({reason})'))
                return False
            probs = rg.valid_path(net, path, src, dst)
            L = rg.fibre_length(path)
            if probs:
                viol.append(dict(fingerprint='invalid-route', what=f'{where}: route {[e.uid for e in path]} {probs[0]}'))
                return False
            if L > shortest + 0.01 * len(path) + 1e-6:
                viol.append(dict(fingerprint='loose-fallback-not-shortest', what=f'{where}: LOOSE constraints cannot '
                                 f'be met; returned {L / 1e3:.3f} km, unconstrained shortest is {shortest / 1e3:.3f} km'))
                return False
            tags['relaxed'] = 1
            ok = True
        else:
            ctx['unjudged'] += 1
            return False
    return ok


def run_case(case):
    from gnpy.core.elements import Roadm, Transceiver
    from gnpy.core.exceptions import ServiceError
    from gnpy.tools.json_io import requests_from_json
    from gnpy.topology.request import correct_json_route_list, compute_path_dsjctn, find_reversed_path
    from gnpy.topology.spectrum_assignment import build_oms_list
    viol = []
    topo = rg.mesh_topology(case['n'], [tuple(e) for e in case['edges']], case['lengths'], case['style'])
    net, equipment, _, _ = c.design(topo, c.eqpt_json('test'))
    build_oms_list(net, equipment)
    trx = sorted((n for n in net.nodes() if isinstance(n, Transceiver)), key=lambda x: x.uid)
    by_uid = {n.uid: n for n in net.nodes()}
    cands = candidates(net, topo)
    tags = {}
    transitions = 0
    traces = 0
    unjudged = 0
    all_paths = {}
    for s in trx:
        for d in trx:
            if s is not d:
                ps = rg.simple_paths(net, s, d)
                all_paths[(s.uid, d.uid)] = [([e.uid for e in p], rg.fibre_length(p)) for p in ps]
    max_len = case['max_include']
    lists = [()]
    for k in range(1, max_len + 1):
        lists += list(itertools.permutations(cands, k)) if k <= 2 else \
            [x for x in itertools.permutations(cands[:7], k)]
    lists += [(x, x) for x in cands[:3]]
    if max_len < 3:
        # every ordered triple of ROADMs (the full 3-lists over the wider alphabet are left to the thorough tier)
        lists += list(itertools.permutations([u for u in cands if u.startswith('roadm ') and u != 'roadm Nowhere'], 3))
    # "explicit" lists: one line element of every link of a walk of 2-4 directed links from the source site to the destination
    # site, walks that come back to a site included (the list then describes a loop, not a route)
    sites = rg.SITES[:case['n']]
    adj = {a: [] for a in sites}
    for i, j in case['edges']:
        adj[sites[i]].append(sites[j])
        adj[sites[j]].append(sites[i])
    line_uids = {e['uid'] for e in topo['elements'] if e['type'] == 'Fiber'}
    walks = {}
    def extend(w):
        if 2 <= len(w) - 1 <= (3 if max_len < 3 else 4) and w[0] != w[-1]:
            walks.setdefault((f'trx {w[0]}', f'trx {w[-1]}'), []).append(
                tuple(f'{a}>{b}:0:Fiber' for a, b in zip(w, w[1:])))
        if len(w) - 1 < (3 if max_len < 3 else 4):
            for nx_ in adj[w[-1]]:
                extend(w + [nx_])
    for a in sites:
        extend([a])
    pairs = [(s.uid, d.uid) for s in trx for d in trx if s is not d]
    if case.get('pairs'):
        pairs = pairs[:case['pairs']]
    ctx = {'net': net, 'all_paths': all_paths, 'shortest': {k: min(L for _, L in v) for k, v in all_paths.items()},
           'viol': viol, 'tags': tags, 'unjudged': 0}
    for (src, dst) in pairs:
        other_trx = next((t.uid for t in trx if t.uid not in (src, dst)), None)
        paths = all_paths[(src, dst)]
        shortest = min(L for _, L in paths)
        # the destination transceiver may close the include list (it is then dropped together with its own hop type)
        with_dst = [(x, dst) for x in cands] + [(dst,)]
        for inc in lists + [w for w in walks.get((src, dst), []) if all(u in line_uids for u in w)] + with_dst:
            for hop in (HOPS + ['MIXED_R'] if inc else ['STRICT']):
                if hop in ('MIXED', 'MIXED_R') and len(inc) < 2:
                    continue
                if hop == 'MIXED_R' and inc[-1] != dst:
                    continue
                hops = [hop] * len(inc) if not hop.startswith('MIXED') else \
                    [('LOOSE', 'STRICT')[(i + (hop == 'MIXED_R')) % 2] for i in range(len(inc))]
                include = list(zip(inc, hops))
                transitions += 1
                where = f'{src}->{dst} include {include} on graph {case["edges"]} ({case["lengths"]}, {case["style"]})'
                doc = rg.service([rg.request('r', src, dst, include=include)])
                # model of the route-list clean-up
                unknown_strict = any(u not in by_uid and h == 'STRICT' for u, h in include)
                eff = [(u, h) for u, h in include if u in by_uid]
                if eff and eff[-1][0] == dst:
                    eff = eff[:-1]
                    tags['destination-closes-include-list'] = 1
                try:
                    rqs = requests_from_json(doc, equipment)
                    rqs = correct_json_route_list(net, rqs)
                    pths = compute_path_dsjctn(net, equipment, rqs, [])
                except ServiceError as exc:
                    if unknown_strict:
                        tags['strict-unknown-rejected'] = 1
                        traces += 1
                    else:
                        viol.append(dict(fingerprint='service-error-on-valid-request', what=f'{where}: {exc}'))
                    continue
                except Exception as exc:  # noqa
                    viol.append(dict(fingerprint=f'route-computation-raised:{type(exc).__name__}', what=f'{where}: {exc}'))
                    continue
                if unknown_strict:
                    viol.append(dict(fingerprint='unknown-strict-node-accepted', what=f'{where}: no ServiceError'))
                    continue
                rq, path = rqs[0], pths[0]
                if not judge(ctx, where, rq, path, src, dst, eff):
                    continue
                traces += 1
                # reverse path of the returned route
                if path and not inc:
                    try:
                        rev = find_reversed_path(path)
                    except Exception as exc:  # noqa
                        viol.append(dict(fingerprint=f'reverse-path-raised:{type(exc).__name__}', what=f'{where}: {exc}'))
                        continue
                    probs = rg.valid_path(net, rev, dst, src)
                    fr = [e.uid for e in path if isinstance(e, Roadm)]
                    rr = [e.uid for e in rev if isinstance(e, Roadm)]
                    if probs or rr != fr[::-1]:
                        viol.append(dict(fingerprint='reverse-path', what=f'{where}: reverse path {rr} for forward {fr} {probs[:1]}'))
            if len(viol) > 12:
                break
        if len(viol) > 12:
            break
    # ---- batches: two requests between the same transceivers in ONE service document, through the front half of planning()
    # (requests_from_json, correct_json_route_list, requests_aggregation, compute_path_dsjctn).  Each request is judged on its
    # own include list: the other request of the batch, the order of the batch and the aggregation step must not matter.
    if len(viol) <= 12:
        from gnpy.topology.request import requests_aggregation
        roadms = [u for u in cands if u.startswith('roadm ') and u != 'roadm Nowhere']
        short = [()] + [(u,) for u in roadms] + list(itertools.permutations(roadms[:4], 2))
        variants = [(inc, hop) for inc in short for hop in (('STRICT', 'LOOSE') if inc else ('STRICT',))]
        for (src, dst) in pairs[:case.get('batch_pairs', 2)]:
            for (ia, ha), (ib, hb) in itertools.permutations(variants, 2):
                if not (ia or ib):
                    continue
                # twins that differ only in the hop type, lists with the same nodes in another order, and everything else
                docs = rg.service([rg.request('b1', src, dst, include=[(u, ha) for u in ia]),
                                   rg.request('b2', src, dst, include=[(u, hb) for u in ib])])
                transitions += 2
                try:
                    rqs = requests_from_json(docs, equipment)
                    rqs = correct_json_route_list(net, rqs)
                    rqs, _ = requests_aggregation(rqs, [])
                    pths = compute_path_dsjctn(net, equipment, rqs, [])
                except Exception as exc:  # noqa
                    viol.append(dict(fingerprint=f'batch-route-computation-raised:{type(exc).__name__}',
                                     what=f'{src}->{dst} batch {[(ia, ha), (ib, hb)]}: {exc}'))
                    break
                got = {}
                for rq, pth in zip(rqs, pths):
                    for rid in rq.request_id.split(' | '):
                        got[rid] = (rq, pth)
                for rid, inc, hop in (('b1', ia, ha), ('b2', ib, hb)):
                    where = (f'{src}->{dst} request {rid} (include {list(inc)} {hop}) in a batch with the other request '
                             f'{[(list(ia), ha), (list(ib), hb)]} on graph {case["edges"]} ({case["lengths"]}, {case["style"]})')
                    if rid not in got:
                        viol.append(dict(fingerprint='batch-request-lost', what=f'{where}: not among the computed requests '
                                         f'{[r.request_id for r in rqs]}'))
                        continue
                    rq, pth = got[rid]
                    if ' | ' in rq.request_id and (ia, ha) != (ib, hb):
                        viol.append(dict(fingerprint='batch-requests-with-different-constraints-aggregated',
                                         what=f'{where}: aggregated as {rq.request_id}'))
                        continue
                    if judge(ctx, where, rq, pth, src, dst, [(u, hop) for u in inc]):
                        traces += 1
                # the same two requests declared disjoint from each other: whatever the group does to the routes, a STRICT
                # list is crossed in order or the computation is refused (DisjunctionError) / the request blocked
                if 'STRICT' in (ha, hb) and (ia and ib):
                    from gnpy.core.exceptions import DisjunctionError
                    from gnpy.tools.json_io import disjunctions_from_json
                    from gnpy.topology.request import deduplicate_disjunctions
                    gdoc = rg.service([rg.request('b1', src, dst, include=[(u, ha) for u in ia]),
                                       rg.request('b2', src, dst, include=[(u, hb) for u in ib])], groups=[['b1', 'b2']])
                    transitions += 1
                    try:
                        rqs = correct_json_route_list(net, requests_from_json(gdoc, equipment))
                        dsj = deduplicate_disjunctions(disjunctions_from_json(gdoc))
                        rqs, dsj = requests_aggregation(rqs, dsj)
                        pths = compute_path_dsjctn(net, equipment, rqs, dsj)
                    except DisjunctionError:
                        tags['group-refused'] = 1
                        pths = None
                    except Exception as exc:  # noqa
                        viol.append(dict(fingerprint=f'group-route-computation-raised:{type(exc).__name__}',
                                         what=f'{src}->{dst} disjoint pair {[(ia, ha), (ib, hb)]}: {exc}'))
                        pths = None
                    if pths is not None:
                        for rq, pth in zip(rqs, pths):
                            inc, hop = (ia, ha) if rq.request_id == 'b1' else (ib, hb)
                            uids = [e.uid for e in pth]
                            if pth and hop == 'STRICT' and not rg.contains_in_order(uids, list(inc)):
                                viol.append(dict(fingerprint='group-strict-include-ignored',
                                                 what=f'{src}->{dst} request {rq.request_id} of the disjoint pair '
                                                      f'{[(list(ia), ha), (list(ib), hb)]} on graph {case["edges"]} ({case["lengths"]}, '
                                                      f'{case["style"]}): route {[u for u in uids if u.startswith("roadm")]} does not '
                                                      f'cross STRICT {list(inc)}'))
                            elif pth:
                                probs = rg.valid_path(net, pth, src, dst)
                                if probs:
                                    viol.append(dict(fingerprint='invalid-route', what=f'{src}->{dst} disjoint pair: {probs[0]}'))
                                else:
                                    tags['group-routed'] = 1
                if len(viol) > 12:
                    break
            tags['batches'] = 1
    # ---- long explicit routes: the complete element list of a route (every amplifier, fibre, fused and ROADM) as STRICT
    # include list (11 and more route objects): the route returned is exactly that one
    if len(viol) <= 12:
        for (src, dst) in pairs[:case.get('batch_pairs', 2) + 2]:
            ps = sorted(all_paths[(src, dst)], key=lambda x: (x[1], x[0]))
            for uids, L in ps[:2] + ps[-2:]:
                inc = [u for u in uids[1:-1]]
                if len(inc) < 11:
                    continue
                transitions += 1
                where = f'{src}->{dst} complete route of {len(inc)} elements as STRICT include list on graph {case["edges"]} ' \
                        f'({case["lengths"]}, {case["style"]})'
                try:
                    rqs = requests_from_json(rg.service([rg.request('x', src, dst, include=[(u, 'STRICT') for u in inc])]), equipment)
                    rqs = correct_json_route_list(net, rqs)
                    pths = compute_path_dsjctn(net, equipment, rqs, [])
                except Exception as exc:  # noqa
                    viol.append(dict(fingerprint=f'explicit-route-raised:{type(exc).__name__}', what=f'{where}: {exc}'))
                    continue
                got = [e.uid for e in pths[0]]
                if got != uids:
                    viol.append(dict(fingerprint='complete-explicit-route-not-followed', what=f'{where}: asked for {uids[:6]}..., '
                                     f'got {got[:6]}... (reason {getattr(rqs[0], "blocking_reason", None)})'))
                    continue
                tags['long-explicit-route'] = 1
                traces += 1
    # requests built through the API without any route list (as a library user would), one after the other in this process:
    # each gets the unconstrained shortest route to ITS destination
    if len(viol) <= 12:
        from gnpy.core.equipment import trx_mode_params
        from gnpy.core.utils import dbm2watt
        from gnpy.topology.request import PathRequest
        for k, (src, dst) in enumerate(pairs):
            params = {'request_id': f'api{k}', 'source': src, 'destination': dst, 'bidir': False, 'trx_type': 'Voyager',
                      'trx_mode': 'mode 1', 'format': 'mode 1', 'spacing': 50e9, 'path_bandwidth': 100e9, 'nb_channel': 20,
                      'power': dbm2watt(0), 'tx_power': dbm2watt(0), 'effective_freq_slot': [{'N': None, 'M': None}]}
            params.update(trx_mode_params(equipment, 'Voyager', 'mode 1', True))
            transitions += 1
            where = f'API-built request {src}->{dst} (no route lists; request number {k + 1} in this process) on graph ' \
                    f'{case["edges"]} ({case["lengths"]}, {case["style"]})'
            try:
                rq = PathRequest(**params)
                path = compute_path_dsjctn(net, equipment, [rq], [])[0]
            except Exception as exc:  # noqa
                viol.append(dict(fingerprint=f'api-route-computation-raised:{type(exc).__name__}', what=f'{where}: {exc}'))
                break
            shortest = min(L for _, L in all_paths[(src, dst)])
            probs = rg.valid_path(net, path, src, dst) if path else ['no route']
            if probs:
                viol.append(dict(fingerprint='api-request-not-routed', what=f'{where}: {probs[0]} (reason '
                                 f'{getattr(rq, "blocking_reason", None)}, route {[e.uid for e in path][:4]}...)'))
                break
            if rg.fibre_length(path) > shortest + 0.01 * len(path) + 1e-6:
                viol.append(dict(fingerprint='api-route-not-shortest', what=f'{where}: {rg.fibre_length(path) / 1e3:.3f} km, shortest '
                                 f'{shortest / 1e3:.3f} km'))
                break
            traces += 1
        tags['api-requests'] = 1
    for v in viol:
        v['case'] = case
    unjudged += ctx['unjudged']
    return {'violations': viol[:10], 'transitions': transitions, 'traces': traces, 'unjudged': unjudged,
            'nontrivial': bool(tags), 'tags': tags, 'outcomes': sorted(tags),
            'sample': dict(case, requests=transitions)}


def main(rep, tier, seed):
    graphs = rg.atlas_graphs(3, 5)
    cases = []
    styles = ['plain', 'ila', 'fused', 'mixed']
    for gi, (n, edges) in enumerate(graphs):
        if tier == 'quick' and n == 5 and (gi + seed) % 4 != 0:
            continue
        for li, lengths in enumerate(['equal', 'distinct', 'shortcut', 'tie_minus', 'tie_plus']):
            st = [styles[(gi + li + seed) % 4]] if tier == 'quick' else styles
            for style in st:
                cases.append(dict(n=n, edges=[list(e) for e in edges], lengths=lengths, style=style,
                                  max_include=2 if tier == 'quick' else 3, pairs=6 if (tier == 'quick' and n == 5) else None))
    results, stats = engine.run_pool('checks.c11', cases, horizon=1800, chunksize=1)
    rep.absorb(results)
    rep.cov['bound'] = (f'{len(cases)} networks (connected graphs on 3-5 ROADM sites from the graph atlas x length assignments x '
                        f'link styles), every ordered source/destination pair, every ordered include list of <= '
                        f'{2 if tier == "quick" else 3} nodes from the per-network alphabet (+ every ordered ROADM triple; + one fibre per link of every walk of 2-3 (thorough: 4) links from source to destination site, loops included) x hop types STRICT/LOOSE/mixed; + every ordered pair of short include lists x hop types as a two-request batch between the first source/destination pairs; + complete element lists of the shortest and longest routes as STRICT lists')
    rep.cov['space_size'] = len(cases)
    rep.cov['evaluations'] = sum(r.get('transitions', 0) for r in results)
    rep.cov['exhaustive'] = not stats['budget_hit'] and len(results) == len(cases)
    rep.cov['rule'] = ('a case = one designed network with its OMS list; transitions = requests routed by the real '
                       'requests_from_json / correct_json_route_list / compute_path_dsjctn and compared with a brute-force '
                       'enumeration of all simple paths. Non-trivial: the include list changes the route, blocks it or is relaxed. '
                       'Jointly unsatisfiable mixed LOOSE/STRICT lists are unjudged (the statement does not say which rule wins).')
    rep.assumptions += ['fibre length is the route metric; the 0.01 m weight of non-fibre edges is covered by a 0.01 m x hops slack']
    for k in ('blocked', 'relaxed', 'constraint-changes-route', 'strict-unknown-rejected', 'batches', 'long-explicit-route',
              'group-refused', 'group-routed'):
        rep.require(rep.tags.get(k, 0) >= 1, f'{k} never observed')
