"""C08 - auto-design turns any well-formed topology into a complete line system.

Deviation-bounded enumeration over (site graph, chain of link 0 in both directions, Span padding / EOL / max_length /
connector defaults, power or gain mode, library); real network_from_json + designed_network; structural oracle
evaluated on the input document and the designed graph.
"""
from mc import engine
from checks import common as c
from checks import topogen as tg

SPACE = dict({'graph': list(tg.GRAPHS), 'chain': tg.CHAINS, 'chain_rev': ['F80', 'F200', 'F40_U_F30', 'E_F80', 'F10'],
              'eq': ['test', 'example', 'multiband'], 'bands': ['C', 'CL', 'CL_first', 'CL_rest'],
              # library object used before: another network (a line with a fibre that is split) was designed with it first
              'used_library': [0, 1]}, **tg.SPAN_SPACE)


def original_fibres(topo):
    return {e['uid']: e for e in topo['elements'] if e['type'] in ('Fiber', 'RamanFiber')}


def loss_of_params(p, length_km):
    lc = p['loss_coef']
    if isinstance(lc, dict):
        lc = lc['value'][len(lc['value']) // 2]
    return lc * length_km


def run_no_insert(case):
    """the --no-insert-edfas entry point (worker_utils.designed_network(no_insert_edfas=True)) on a hand-written topology that
    already has all its amplifiers: design still completes the fibres (connector losses) and pads the short spans"""
    from gnpy.core.elements import Edfa, Fiber
    viol = []
    eq = tg.library(case)
    e = c.edfa
    L = case['length']
    amp = (lambda: e('std_low_gain')) if case['amps'] == 'typed' else (lambda: e('std_medium_gain', gain_target=15.0, out_voa=0.0,
                                                                                   tilt_target=0.0, delta_p=0.0))
    mk = lambda: [amp(), c.fiber(L), amp(), c.fiber(L + 25), amp()]      # noqa  (con_in / con_out left to the Span defaults)
    topo = c.build_topology(['A', 'B'], [('A', 'B', mk(), mk())])
    try:
        net, equipment, _, _ = c.design(topo, eq, no_insert_edfas=True)
    except Exception as exc:  # noqa
        return {'violations': [dict(fingerprint=f'no-insert-design-raised:{type(exc).__name__}', what=f'complete topology designed '
                                    f'with no_insert_edfas: {type(exc).__name__}: {str(exc)[:200]}', case=case)], 'transitions': 1}
    pad = eq['Span'][0]['padding']
    for n in net.nodes():
        if isinstance(n, Fiber):
            for k in ('con_in', 'con_out', 'att_in'):
                if not isinstance(getattr(n.params, k), (int, float)):
                    viol.append(dict(fingerprint='fibre-without-connector-loss', what=f'no_insert_edfas: {n.uid}: {k} = '
                                     f'{getattr(n.params, k)!r}', case=case))
            nxt = next(iter(net.successors(n)))
            prv = next(iter(net.predecessors(n)))
            if isinstance(nxt, Edfa) and isinstance(prv, Edfa) and float(n.loss) < pad - 1e-9:
                viol.append(dict(fingerprint='span-below-padding', what=f'no_insert_edfas: span {n.uid} between {prv.uid} and '
                                 f'{nxt.uid} has {float(n.loss):.3f} dB < padding {pad} dB', case=case))
    if len(list(net.nodes())) != len(topo['elements']):
        viol.append(dict(fingerprint='no-insert-changed-element-count', what=f'{len(topo["elements"])} elements in, '
                         f'{len(list(net.nodes()))} out', case=case))
    return {'violations': viol[:4], 'transitions': 1, 'traces': 0 if viol else 1, 'nontrivial': True,
            'tags': {'no-insert-edfas': 1, 'padding-added': int(any(isinstance(n, Fiber) and float(n.params.att_in) > 0 for n in net.nodes()))},
            'sample': case}


def run_case(case):
    if case.get('kind') == 'no_insert':
        return run_no_insert(case)
    import networkx as nx
    from gnpy.core.elements import Edfa, Multiband_amplifier, Fiber, RamanFiber, Fused, Roadm, Transceiver
    from gnpy.core.exceptions import ConfigurationError, NetworkTopologyError, EquipmentConfigError
    viol = []

    def v(fp, what):
        viol.append(dict(fingerprint=fp, what=what, case=case))
    sim = {'raman_params': {'flag': True, 'result_spatial_resolution': 10e3, 'solver_spatial_resolution': 1e3}} \
        if (tg.has_raman(case['chain']) or tg.has_raman(case['chain_rev'])) else None
    eq = tg.library(case)
    topo = tg.topology(case)
    equipment = c.make_equipment(eq)
    c.set_sim_params(sim)
    try:
        net0 = c.load_network(topo, equipment)
        before_reach = reach(net0)
        try:
            warm = tg.topology(dict(case, graph='P2', chain='F200', chain_rev='F80')) if case.get('used_library') else None
            net, equipment, _, _ = c.design(topo, eq, sim=sim, warm=warm)
        except Exception as exc:  # noqa
            if type(exc) is ConfigurationError and 'auto_design' in str(exc).lower():
                # documented rejection: no amplifier in the library can satisfy the requirement
                return {'status': 'rejected', 'tags': {'design-rejected:ConfigurationError': 1}, 'sample': case}
            import traceback
            tb = traceback.format_exc()
            frames = [ln.strip() for ln in tb.strip().split('\n') if ln.strip().startswith('File "')]
            site = frames[-1].split(', in ')[-1] if frames else ''
            if 'amps do not belong to the same amp type' in str(exc):
                site = 'multiband-amps-of-different-types'
            v(f'design-raised:{type(exc).__name__}:{site}', f'designed_network raised {type(exc).__name__}: {str(exc)[:160]} on '
              f'a well-formed topology (chain {case["chain"]} / {case["chain_rev"]}, Span padding {case["padding"]} max_length '
              f'{case["max_length"]})')
            viol[-1]['traceback'] = tb
            return {'violations': viol, 'transitions': 1}
    finally:
        c.set_sim_params({})
    # Span settings of the equipment DOCUMENT (a loader or a design step that changes them must not change the oracle)
    class _Span:
        padding = eq['Span'][0]['padding']
        max_length = eq['Span'][0]['max_length']          # km (length_units of every library used here)
        power_mode = eq['Span'][0]['power_mode']
    assert eq['Span'][0].get('length_units', 'km') == 'km'
    span = _Span
    power_mode = span.power_mode
    for d in c.settings_vs_document(equipment, eq)[:2]:
        v('library-settings-changed', f'after design, {d}')
    tags = {'library-used-before': 1} if case.get('used_library') else {}
    uids = [n.uid for n in net.nodes()]
    if len(set(uids)) != len(uids):
        v('duplicate-uid', f'duplicate element names after design: {sorted(u for u in set(uids) if uids.count(u) > 1)[:4]}')
    # 1. amplifiers complete
    user_typed = {e['uid'] for e in topo['elements'] if e.get('type_variety')}
    for n in net.nodes():
        amps = list(n.amplifiers.values()) if isinstance(n, Multiband_amplifier) else [n] if isinstance(n, Edfa) else []
        if isinstance(n, Multiband_amplifier):
            # the per-band amplifiers form the declared multi-band type, and an automatically chosen type is one that the
            # library allows for design
            tv = n.params.type_variety
            lib = equipment['Edfa'].get(tv)
            members = list(lib.multi_band) if lib is not None and lib.multi_band else []
            got = [a.params.type_variety for a in n.amplifiers.values()]
            if sorted(got) != sorted(members):
                v('multiband-amplifiers-not-of-its-type', f'{n.uid}: type {tv!r} is made of {members}, per-band amplifiers {got}')
            if n.uid not in user_typed and lib is not None and not lib.allowed_for_design:
                v('multiband-type-not-allowed-for-design', f'{n.uid}: auto-design chose {tv!r} which is not allowed for design')
            tags['multiband-amplifier-designed'] = 1
        for a in amps:
            tv = a.params.type_variety
            if not tv or tv not in equipment['Edfa']:
                v('amplifier-without-model', f'{n.uid}: type_variety {tv!r} is not a library model')
            if not isinstance(a.effective_gain, (int, float)) or a.effective_gain != a.effective_gain:
                v('amplifier-without-gain', f'{n.uid}: effective_gain {a.effective_gain!r}')
            if not isinstance(a.out_voa, (int, float)):
                v('amplifier-without-voa', f'{n.uid}: out_voa {a.out_voa!r}')
            if power_mode and not isinstance(a.delta_p, (int, float)):
                v('amplifier-without-power-target', f'{n.uid}: delta_p {a.delta_p!r} in power mode')
    # 2. fibres complete
    for n in net.nodes():
        if isinstance(n, Fiber):
            for k in ('con_in', 'con_out', 'att_in'):
                val = getattr(n.params, k)
                if not isinstance(val, (int, float)):
                    v('fibre-without-connector-loss', f'{n.uid}: {k} = {val!r}')
    # 5/6. adjacency and degrees
    for a, b in net.edges():
        if isinstance(a, Fiber) and isinstance(b, Fiber):
            v('fibre-to-fibre-junction-without-amplifier', f'{a.uid} -> {b.uid}')
        if (isinstance(a, Roadm) and isinstance(b, Fiber)) or (isinstance(a, Fiber) and isinstance(b, Roadm)):
            v('roadm-to-fibre-junction-without-amplifier', f'{a.uid} -> {b.uid}')
    for n in net.nodes():
        if not isinstance(n, (Roadm, Transceiver)):
            if net.in_degree(n) != 1 or net.out_degree(n) != 1:
                v('line-element-not-one-in-one-out', f'{n.uid}: in {net.in_degree(n)} out {net.out_degree(n)}')
    if reach(net) != before_reach:
        v('reachability-changed', 'the reachability relation between ROADMs/transceivers changed during design')
    # 3. padding on every amplifier-to-amplifier passive run (no Raman fibre)
    amp_t = (Edfa, Multiband_amplifier)
    for n in net.nodes():
        if not isinstance(n, amp_t):
            continue
        run = []
        x = next(iter(net.successors(n)), None)
        while x is not None and isinstance(x, (Fiber, Fused)):
            run.append(x)
            x = next(iter(net.successors(x)), None)
        if not run or not isinstance(x, amp_t) or any(isinstance(r, RamanFiber) for r in run) or \
                not any(isinstance(r, Fiber) for r in run):
            continue
        loss = sum(float(r.loss) for r in run)
        if loss < span.padding - 1e-9:
            v('span-below-padding', f'span {[r.uid for r in run]} between {n.uid} and {x.uid} has {loss:.4f} dB < padding '
              f'{span.padding} dB')
        if any(float(getattr(r.params, "att_in", 0) or 0) > 0 for r in run if isinstance(r, Fiber)):
            tags['padding-added'] = 1
    # 4. splitting
    max_len_m = span.max_length * 1e3
    for uid, el in original_fibres(topo).items():
        L = el['params']['length'] * 1e3
        parts = [n for n in net.nodes() if isinstance(n, Fiber) and (n.uid == uid or n.uid.startswith(uid + '_('))]
        if el['type'] == 'RamanFiber' and L <= max_len_m:
            continue
        # (a Raman fibre longer than the maximum span length is split like any other fibre; that the spans come out as plain
        # fibres without pumps is observed on the unchanged tree and not judged: the statement only speaks of length and loss)
        if L > max_len_m:
            tags['split'] = 1
            if len(parts) < 2 or any(p.uid == uid for p in parts):
                v('long-fibre-not-split', f'{uid}: {L / 1e3} km > max_length {span.max_length} km but found {[p.uid for p in parts]}')
                continue
            lens = [p.params.length for p in parts]
            if max(lens) - min(lens) > 1e-6:
                v('split-spans-not-equal', f'{uid}: span lengths {lens}')
            if abs(sum(lens) - L) > 1e-6 * max(1, len(lens)):
                v('split-length-not-preserved', f'{uid}: spans sum to {sum(lens)!r} m, original {L!r} m')
            if max(lens) > max_len_m + 1e-6:
                v('split-span-longer-than-max', f'{uid}: spans of {max(lens) / 1e3:.3f} km > max_length {span.max_length} km')
            # loss: fibre attenuation is preserved; lumped losses + input pads are preserved up to the padding that
            # design is entitled to add on spans that would otherwise be below the padding loss
            orig_att = float(el['params'].get('att_in') or 0)
            orig_lump = sum(x['loss'] for x in el['params'].get('lumped_losses', []))
            got_lump = sum(float(x['loss']) for p in parts for x in p.params.lumped_losses)
            got_att = sum(float(p.params.att_in) for p in parts)
            o = c.node(net0, uid)
            exp_loss = float(o.loss_coef_func(o.params.ref_frequency)) * o.params.length
            fib_loss = sum(float(p.loss_coef_func(p.params.ref_frequency)) * p.params.length for p in parts)
            if abs(fib_loss - exp_loss) > 1e-6:
                v('split-loss-not-preserved', f'{uid}: spans attenuate {fib_loss:.6f} dB, original {exp_loss:.6f} dB')
            extra = (got_lump + got_att) - (orig_lump + orig_att)
            allowed = sum(max(0.0, span.padding - (float(p.loss) - float(p.params.att_in))) for p in parts)
            if extra < -1e-9 or extra > allowed + 1e-9:
                v('split-lumped-loss-or-pad-not-preserved', f'{uid}: lumped losses {orig_lump} dB + pad {orig_att} dB on the '
                  f'original fibre became lumped {got_lump} dB + pads {got_att} dB over its {len(parts)} spans '
                  f'(padding may add at most {allowed:.3f} dB)')
            uu = [p.uid for p in parts]
            if len(set(uu)) != len(uu):
                v('split-names-not-unique', f'{uid}: {uu}')
        else:
            if len(parts) != 1 or parts[0].uid != uid:
                v('short-fibre-split', f'{uid}: {L / 1e3} km <= max_length but became {[p.uid for p in parts]}')
    for n in net.nodes():
        if isinstance(n, amp_t) and n.uid.startswith('Edfa_'):
            kind = n.uid.split('_')[1]
            tags['inserted:' + (kind if kind in ('booster', 'preamp') else 'inline')] = 1
    return {'violations': viol[:8], 'transitions': 1, 'traces': 0 if viol else 1, 'nontrivial': bool(tags), 'tags': tags,
            'outcomes': [case['chain']], 'sample': case}


def reach(net):
    import networkx as nx
    from gnpy.core.elements import Roadm, Transceiver
    ends = [n for n in net.nodes() if isinstance(n, (Roadm, Transceiver))]
    out = set()
    for a in ends:
        desc = nx.descendants(net, a)
        for b in ends:
            if b in desc:
                out.add((a.uid, b.uid))
    return out


def main(rep, tier, seed):
    sp = engine.Space(SPACE, bases=[{}, {'graph': 'P3', 'chain': 'F200', 'max_length': 90, 'eq': 'example'},
                                    {'eq': 'multiband', 'bands': 'CL', 'chain': 'F80_F60'},
                                    {'graph': 'TRI', 'chain': 'F40_U_F30', 'mode': 'gain', 'padding': 16}],
                      constraint=lambda x: tg.consistent(x) and not (x['bands'] != 'C' and x['eq'] != 'multiband') and
                      not (x['eq'] == 'multiband' and (tg.has_raman(x['chain']) or x['chain'].startswith('E') or '_E' in x['chain']
                                                       or x['chain_rev'].startswith('E'))))
    d = 2 if tier == 'quick' else 3
    bases = engine.pick_bases(sp.bases, seed, tier, n_quick=3)
    cases = [{k: x[k] for k in SPACE} for x in sp.enumerate(d, bases=bases)]
    # the no_insert_edfas entry point on complete hand-written topologies (short spans need padding, connectors left to defaults)
    for L in (20, 40, 80):
        for amps in ('typed', 'full'):
            for padding in (10, 16, 0):
                for con in (0.0, 0.5):
                    for eqn in ('test', 'example'):
                        cases.append({'kind': 'no_insert', 'length': L, 'amps': amps, 'padding': padding, 'con': con, 'eq': eqn,
                                      'mode': 'power' if amps == 'typed' else 'gain'})
    results, stats = engine.run_pool('checks.c08', cases, horizon=300)
    rep.absorb(results)
    rep.cov['bound'] = (f'<= {d} deviations from base points {bases} over {list(SPACE)} ({len(tg.CHAINS)} link chains); + 72 complete '
                        'hand-written line systems designed through designed_network(no_insert_edfas=True)')
    rep.cov['space_size'] = len(cases)
    rep.cov['exhaustive'] = not stats['budget_hit'] and len(results) == len(cases)
    rep.cov['rule'] = ('a case = one topology document + one equipment document through network_from_json and designed_network; '
                       'oracle on the designed graph: amplifiers/fibres complete, padding on amplifier-to-amplifier spans, long '
                       'fibres split into equal spans preserving length / attenuation / lumped losses / user pad, no '
                       'fibre-fibre or ROADM-fibre adjacency, one-in/one-out line elements, unique names, unchanged reachability. '
                       'Non-trivial: design inserted, split or padded something. Span settings with padding/0.2 >= max_length '
                       'are contradictory and not explored.')
    rep.assumptions += ['ConfigurationError from the amplifier selection (no model can satisfy the requirement) is a documented '
                        'rejection and counted as such']
    for k in ('split', 'padding-added', 'inserted:booster', 'inserted:preamp', 'inserted:inline', 'no-insert-edfas'):
        rep.require(rep.tags.get(k, 0) >= 1, f'{k} never observed')
