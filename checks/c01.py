"""C01 - per-channel power always splits exactly into signal + ASE + NLI.

Part A: explicit-state BFS over sequences of bookkeeping operations on real SpectralInformation objects,
        against an exact rational (S, A, N) reference model (fractions.Fraction), checked on every state.
Part B: every per-element snapshot of real propagations (recorder of checks.common) + receiver figures.
"""
from fractions import Fraction as Fr

from mc import engine

INITS = ['clean3', 'noisy3', 'single', 'mixed2', 'mixed5', 'noisy_mixed4', 'hot2', 'clean8']
EVENTS = [
    ['att_db', 0.5], ['att_db', 20.0], ['gain_db', 17.0], ['att_lin_vec', 0], ['gain_lin_vec', 0],
    ['ase', 1e-3], ['ase', 1.0], ['ase', 1e3], ['nli', 1e-4], ['nli', 0.3],
    ['demux_mux', 0], ['demux_mux', 1], ['demux_low', 0], ['plus', 0], ['plus', 1], ['select', 0], ['select', 1],
    ['split_noise_merge', 0], ['split_noise_parent', 0], ['split_noise_parent', 1],
    ['demux_mux3', 0], ['demux_mux3', 1],
]
NOISE_KINDS = {'ase', 'nli'}


def make_init(name):
    import numpy as np
    from gnpy.core.info import SpectralInformation, create_arbitrary_spectral_information

    def arb(freq, pch_dbm, baud, slot):
        return create_arbitrary_spectral_information(
            frequency=np.array(freq), pch=10 ** (np.array(pch_dbm, dtype=float) / 10) * 1e-3, baud_rate=np.array(baud),
            slot_width=np.array(slot), tx_osnr=40.0, tx_power=1e-3, roll_off=0.15, label='x')

    def noisy(si, s, a, n):
        k = si.number_of_channels
        return SpectralInformation(
            frequency=si.frequency, baud_rate=si.baud_rate, slot_width=si.slot_width, pch=si.pch,
            signal_ratio=np.array(s[:k]), ase_ratio=np.array(a[:k]), nli_ratio=np.array(n[:k]), roll_off=si.roll_off,
            chromatic_dispersion=si.chromatic_dispersion, pmd=si.pmd, pdl=si.pdl, latency=si.latency,
            delta_pdb_per_channel=si.delta_pdb_per_channel, tx_osnr=si.tx_osnr, tx_power=si.tx_power, label=si.label)
    if name == 'clean3':
        return arb([193.0e12, 193.05e12, 193.1e12], [0, 0, 0], [32e9] * 3, [50e9] * 3)
    if name == 'noisy3':
        return noisy(arb([193.0e12, 193.05e12, 193.1e12], [0, -3, 1], [32e9] * 3, [50e9] * 3),
                     [0.9, 0.75, 0.5], [0.07, 0.125, 0.25], [0.03, 0.125, 0.25])
    if name == 'single':
        return arb([193.4e12], [3], [64e9], [75e9])
    if name == 'mixed2':
        return arb([193.0e12, 193.0625e12], [-25, 10], [32e9, 64e9], [50e9, 75e9])
    if name == 'mixed5':
        return arb([192.0e12, 192.05e12, 192.1125e12, 192.175e12, 192.225e12], [0, 10, -7, 2.5, -20],
                   [32e9, 32e9, 64e9, 32e9, 16e9], [50e9, 50e9, 75e9, 50e9, 25e9])
    if name == 'noisy_mixed4':
        return noisy(arb([192.0e12, 192.05e12, 192.1125e12, 192.175e12], [0, 10, -7, 2.5],
                         [32e9, 32e9, 64e9, 32e9], [50e9, 50e9, 75e9, 50e9]),
                     [0.5, 0.96875, 0.25, 0.875], [0.25, 0.03125, 0.5, 0.0], [0.25, 0.0, 0.25, 0.125])
    if name == 'hot2':
        return arb([193.0e12, 193.05e12], [10, 10], [32e9, 32e9], [50e9, 50e9])
    if name == 'clean8':
        return arb([193.0e12 + i * 50e9 for i in range(8)], [0, 1, -1, 2, -2, 3, -3, 0], [32e9] * 8, [50e9] * 8)
    raise ValueError(name)


class St:
    """real SpectralInformation + exact reference model {frequency: [S, A, N] Fractions}"""
    def __init__(self, name):
        self.si = make_init(name)
        self.model = {}
        for f, s, a, n in zip(self.si.frequency, self.si.signal, self.si.ase, self.si.nli):
            self.model[float(f)] = [Fr(float(s)), Fr(float(a)), Fr(float(n))]
        self.kinds = []
        self.dropped = False
        self.skipped = False
        self.arg_mutated = None


def vec(n, which):
    import numpy as np
    base = np.array([0.5, 0.25, 0.8, 0.1, 0.9, 0.3, 0.7, 0.6, 0.2, 0.4, 0.55, 0.35])
    v = base[:n] if which == 'att' else 1.0 + 3 * base[:n]
    return v


def other_comb(top, variant):
    import numpy as np
    from gnpy.core.info import SpectralInformation
    f = np.array([top + 200e9, top + 300e9])
    if variant == 0:
        s, a, n = [1.0, 1.0], [0.0, 0.0], [0.0, 0.0]
    else:
        s, a, n = [0.8125, 0.5], [0.125, 0.25], [0.0625, 0.25]
    k = 2
    return SpectralInformation(
        frequency=f, baud_rate=np.array([32e9, 64e9]), slot_width=np.array([50e9, 75e9]), pch=np.array([2e-3, 0.25e-3]),
        signal_ratio=np.array(s), ase_ratio=np.array(a), nli_ratio=np.array(n), roll_off=np.full(k, 0.15),
        chromatic_dispersion=np.zeros(k), pmd=np.zeros(k), pdl=np.zeros(k), latency=np.zeros(k),
        delta_pdb_per_channel=np.zeros(k), tx_osnr=np.full(k, 40.0), tx_power=np.full(k, 1e-3), label=np.full(k, 'y'))


_ARGS = {}


def operand(key, make):
    """the operand arrays of the noise operations are built once per process and the SAME array object is handed to every
    later call of that menu entry (an amplifier model may keep its ASE vector; a caller may add one vector to several
    spectra): an operation must not change the arrays it is given.  Returns (array, pristine copy)."""
    import numpy as np
    if key not in _ARGS:
        v = np.array(make(), dtype=float)
        _ARGS[key] = (v, v.copy())
    return _ARGS[key]


def observe(si):
    """read every reported figure, as a transceiver (or a user) may do between any two operations: reading must be free
    of side effects, and the next read must reflect the operations applied since"""
    return [si.gsnr, si.snr_lin, si.snr_nli, si.signal, si.ase, si.nli, si.pch, si.ptot_dbm]


def apply(st, ev):
    """apply one event to the real object and to the model (the model uses the same float operands, exactly)"""
    import numpy as np
    from gnpy.core.info import demuxed_spectral_information, muxed_spectral_information, select_channels
    from gnpy.core.utils import db2lin
    kind, arg = ev
    si = st.si
    nch = si.number_of_channels
    freqs = [float(f) for f in si.frequency]
    st.skipped = False
    st.arg_mutated = None
    observe(si)
    if kind == 'att_db':
        si.apply_attenuation_db(arg)
        k = Fr(float(1 / db2lin(arg)))
        for f in freqs:
            st.model[f] = [x * k for x in st.model[f]]
    elif kind == 'gain_db':
        si.apply_gain_db(arg)
        k = Fr(float(db2lin(arg)))
        for f in freqs:
            st.model[f] = [x * k for x in st.model[f]]
    elif kind == 'att_lin_vec':
        v = vec(nch, 'att')
        si.apply_attenuation_lin(v)
        for f, k in zip(freqs, v):
            st.model[f] = [x * Fr(float(k)) for x in st.model[f]]
    elif kind == 'gain_lin_vec':
        v = vec(nch, 'gain')
        si.apply_gain_lin(v)
        for f, k in zip(freqs, v):
            st.model[f] = [x * Fr(float(k)) for x in st.model[f]]
    elif kind == 'ase':
        v, v0 = operand(('ase', arg, nch), lambda: arg * 1e-3 * vec(nch, 'att'))          # watts, relative to 0 dBm
        si.add_ase(v)
        if not np.array_equal(v, v0):
            st.arg_mutated = f'add_ase changed the array it was given: {v0[:2].tolist()} -> {v[:2].tolist()}'
            v[:] = v0
        v = v0
        for f, a in zip(freqs, v):
            st.model[f][1] += Fr(float(a))
    elif kind == 'nli':
        v = arg * vec(nch, 'att') * si.pch       # a share of the current channel power
        v0 = v.copy()
        si.add_nli(v)
        if not np.array_equal(v, v0):
            st.arg_mutated = f'add_nli changed the array it was given: {v0[:2].tolist()} -> {v[:2].tolist()}'
        v = v0
        for f, n in zip(freqs, v):
            s, a, nn = st.model[f]
            p = s + a + nn
            k = 1 - Fr(float(n)) / p
            st.model[f] = [s * k, a * k, nn * k + Fr(float(n))]
    elif kind in ('demux_mux', 'demux_low'):
        if nch < 2:
            st.skipped = True
            return
        i = nch // 2
        lo = float(si.frequency[0] - si.slot_width[0] / 2)
        cut = float(si.frequency[i - 1] + si.slot_width[i - 1] / 2)
        hi = float(si.frequency[-1] + si.slot_width[-1] / 2)
        # the cut must not slice through the next channel's slot (exact slot-edge contact is allowed)
        if cut > float(si.frequency[i] - si.slot_width[i] / 2):
            st.skipped = True
            return
        cut2 = float(si.frequency[i] - si.slot_width[i] / 2)
        a = demuxed_spectral_information(si, {'f_min': lo, 'f_max': cut})
        b = demuxed_spectral_information(si, {'f_min': cut2, 'f_max': hi})
        if kind == 'demux_low':
            st.si = a
            for f in freqs[i:]:
                del st.model[f]
            st.dropped = True
        else:
            st.si = muxed_spectral_information([a, b] if arg == 0 else [b, a])
    elif kind == 'demux_mux3':
        # three bands (what a three-band amplifier does): every channel must come back exactly once
        if nch < 3:
            st.skipped = True
            return
        i, j = nch // 3, (2 * nch) // 3
        i = max(i, 1)
        j = max(j, i + 1)
        edges = [float(si.frequency[0] - si.slot_width[0] / 2), float(si.frequency[i] - si.slot_width[i] / 2),
                 float(si.frequency[j] - si.slot_width[j] / 2), float(si.frequency[-1] + si.slot_width[-1] / 2)]
        ups = [float(si.frequency[i - 1] + si.slot_width[i - 1] / 2), float(si.frequency[j - 1] + si.slot_width[j - 1] / 2), edges[3]]
        parts = [demuxed_spectral_information(si, {'f_min': lo, 'f_max': hi}) for lo, hi in zip(edges[:3], ups)]
        if any(p is None for p in parts):
            st.skipped = True
            return
        st.si = muxed_spectral_information(parts if arg == 0 else [parts[2], parts[0], parts[1]])
    elif kind in ('split_noise_merge', 'split_noise_parent'):
        # what a multi-band amplifier does: bands are demuxed from one comb, each band gets its own noise and gain,
        # and either the bands are merged again or the original comb keeps being used (it must be unaffected)
        if nch < 2:
            st.skipped = True
            return
        i = nch // 2
        lo = float(si.frequency[0] - si.slot_width[0] / 2)
        hi = float(si.frequency[-1] + si.slot_width[-1] / 2)
        cut = float(si.frequency[i - 1] + si.slot_width[i - 1] / 2)
        cut2 = float(si.frequency[i] - si.slot_width[i] / 2)
        if cut > cut2:
            st.skipped = True
            return
        if kind == 'split_noise_parent' and arg == 1:
            a = demuxed_spectral_information(si, {'f_min': lo, 'f_max': hi})      # whole comb as one band
            na = nch
        else:
            a = demuxed_spectral_information(si, {'f_min': lo, 'f_max': cut})
            na = i
        b = demuxed_spectral_information(si, {'f_min': cut2, 'f_max': hi})
        va = 0.5e-3 * vec(na, 'att')
        a.add_ase(np.array(va))
        vn = 0.2 * vec(na, 'att') * a.pch
        a.add_nli(np.array(vn))
        a.apply_gain_db(3.0)
        if kind == 'split_noise_merge':
            k = Fr(float(db2lin(3.0)))
            for f, x, n in zip(freqs[:na], va, vn):
                s_, a_, n_ = st.model[f]
                a_ += Fr(float(x))
                p = s_ + a_ + n_
                q = 1 - Fr(float(n)) / p
                st.model[f] = [s_ * q * k, a_ * q * k, (n_ * q + Fr(float(n))) * k]
            st.si = muxed_spectral_information([a, b])
        # else: the parent comb (and the model) must be exactly as before
    elif kind == 'plus':
        if nch > 6:
            st.skipped = True
            return
        oth = other_comb(float(si.frequency[-1]), arg)
        st.si = si + oth if arg == 0 else oth + si
        for f, s, a, n in zip(oth.frequency, oth.signal, oth.ase, oth.nli):
            st.model[float(f)] = [Fr(float(s)), Fr(float(a)), Fr(float(n))]
    elif kind == 'select':
        if nch < 2:
            st.skipped = True
            return
        mask = np.ones(nch, dtype=bool)
        if arg == 0:
            mask[0] = False
        else:
            mask[1::2] = False
        st.si = select_channels(si, mask)
        for f, m in zip(freqs, mask):
            if not m:
                del st.model[f]
        st.dropped = True
    else:
        raise ValueError(ev)
    st.kinds.append(kind)


def build(history):
    st = St(history[0])
    for ev in history[1:]:
        apply(st, ev)
    return st


def canon(st):
    return tuple(sorted((f, tuple(v)) for f, v in st.model.items()))


def events(_st):
    return EVENTS


def rel(a, b):
    a, b = float(a), float(b)
    if a == b:
        return 0.0
    return abs(a - b) / max(abs(a), abs(b))


def invariants(st, depth):
    """violations of the C01 bookkeeping invariants in one state"""
    import numpy as np
    out = []
    si = st.si
    sig, ase, nli, pch = si.signal, si.ase, si.nli, si.pch
    tol = 1e-12 * max(1, depth)
    freqs = [float(f) for f in si.frequency]
    if sorted(freqs) != sorted(st.model):
        out.append(dict(fingerprint='channel-set', what=f'channels {freqs} differ from the model {sorted(st.model)}'))
        return out
    if any(freqs[i] >= freqs[i + 1] for i in range(len(freqs) - 1)):
        out.append(dict(fingerprint='not-sorted', what=f'frequencies not strictly increasing {freqs}'))
    for i, f in enumerate(freqs):
        tot = sig[i] + ase[i] + nli[i]
        if rel(tot, pch[i]) > tol:
            out.append(dict(fingerprint='sum-not-total',
                            what=f'ch {i}: signal+ase+nli={tot!r} != pch={pch[i]!r} (rel {rel(tot, pch[i]):.2e})'))
        for nm, r in (('signal', si._signal_ratio[i]), ('ase', si._ase_ratio[i]), ('nli', si._nli_ratio[i])):
            if not (-1e-15 <= r <= 1 + 1e-12) or np.isnan(r):
                out.append(dict(fingerprint=f'ratio-out-of-range:{nm}', what=f'ch {i}: {nm} ratio {r!r} outside [0,1]'))
        s, a, n = st.model[f]
        for nm, impl, ref in (('signal', sig[i], s), ('ase', ase[i], a), ('nli', nli[i], n), ('pch', pch[i], s + a + n)):
            if rel(impl, ref) > 1e-9:
                out.append(dict(fingerprint=f'differs-from-model:{nm}',
                                what=f'ch {i} ({f / 1e12} THz): {nm}={impl!r}, exact model {float(ref)!r} after {st.kinds}'))
        # reported figures: 1/GSNR = 1/OSNR_ASE + 1/SNR_NLI (linear)
        if si._signal_ratio[i] > 0:
            with np.errstate(divide='ignore'):
                inv_g = 1 / si.gsnr[i]
                inv_a = 1 / si.snr_lin[i]
                inv_n = 1 / si.snr_nli[i]
            if rel(inv_g, inv_a + inv_n) > 1e-12 * max(1, depth) and abs(inv_g - (inv_a + inv_n)) > 1e-300:
                out.append(dict(fingerprint='gsnr-identity', what=f'ch {i}: 1/gsnr={inv_g!r} != {inv_a!r}+{inv_n!r}'))
            # figures derive from the same shares the model holds
            if a + n > 0 and rel(inv_g, (a + n) / s) > 1e-9:
                out.append(dict(fingerprint='gsnr-vs-model', what=f'ch {i}: 1/gsnr={inv_g!r} model {(float((a + n) / s))!r}'))
    return out


def step_check(hist, ev, prev, nxt):
    out = invariants(nxt, len(hist))
    # total power changes only by the factor / addend of the operation (model already encodes it; here the
    # conservation clauses that do not depend on the model: noise additions)
    if getattr(nxt, 'arg_mutated', None):
        out.append(dict(fingerprint='operation-changed-its-operand', what=nxt.arg_mutated))
    if not nxt.skipped:
        kind = ev[0]
        if kind == 'nli':
            for i in range(prev.si.number_of_channels):
                if rel(prev.si.pch[i], nxt.si.pch[i]) > 1e-15:
                    out.append(dict(fingerprint='nli-changed-total', what='add_nli changed the total channel power'))
                    break
        if kind in ('demux_mux', 'demux_mux3'):
            if prev.si.number_of_channels != nxt.si.number_of_channels:
                out.append(dict(fingerprint='demux-mux-lost-channels', what='band split + merge changed the channel count'))
    for v in out:
        v['case'] = {'kind': 'history', 'history': hist + [ev]}
    return out


def run_case(case):
    if case['kind'] == 'history':
        h = case['history']
        return {'violations': step_check(h[:-1], h[-1], build(h[:-1]), build(h)), 'transitions': 1}
    if case['kind'] == 'bfs':
        start = [case['init']] + case['prefix']
        st0 = build(start)
        v0 = invariants(st0, len(start)) if not case['prefix'] else []
        for v in v0:
            v['case'] = {'kind': 'history', 'history': start}
        nontriv = set()
        patterns = set()

        def sc(hist, ev, prev, nxt):
            ks = nxt.kinds
            idx = [i for i, k in enumerate(ks) if k in NOISE_KINDS]
            if idx and any(k != ks[idx[0]] for k in ks[idx[0] + 1:]):
                nontriv.add(engine.digest(hist + [ev]))
            r = nxt.si
            patterns.add((bool((r._ase_ratio > 0).any()), bool((r._nli_ratio > 0).any()), nxt.dropped,
                          r.number_of_channels > 3))
            return step_check(hist, ev, prev, nxt)
        res = engine.bfs([start], build, events, canon, sc, depth=case['depth'])
        return {'states': res['states'], 'transitions': res['transitions'], 'evaluations': res['transitions'],
                'traces': res['transitions'] - len(res['violations']), 'violations': v0 + res['violations'],
                'nontrivial_keys': list(nontriv), 'outcomes': [str(p) for p in patterns],
                'sample': {'init': case['init'], 'prefix': case['prefix'], 'depth': case['depth'],
                           'states': res['states'], 'transitions': res['transitions']}}
    if case['kind'] == 'propagation':
        from checks import common
        return common.c01_propagation_case(case)
    if case['kind'] == 'multiband':
        from checks import common
        return common.c01_multiband_case(case)
    if case['kind'] == 'roundtrip':
        from checks import common
        return common.c01_roundtrip_case(case)
    if case['kind'] == 'receiver':
        from checks import common
        return common.c01_receiver_case(case)
    raise ValueError(case)


def main(rep, tier, seed):
    from checks import common
    if tier == 'quick':
        depth = 4
        inits = [INITS[(seed + i) % len(INITS)] for i in range(3)]
        if 'noisy3' not in inits and 'noisy_mixed4' not in inits:
            inits[-1] = 'noisy_mixed4'
    else:
        depth, inits = 5, INITS
    cases = []
    for name in inits:
        cases.append({'kind': 'bfs', 'init': name, 'prefix': [], 'depth': 1})
        for ev in EVENTS:
            cases.append({'kind': 'bfs', 'init': name, 'prefix': [ev], 'depth': depth - 1})
    prop_cases = common.propagation_cases(tier, seed, purpose='C01')
    prop_cases += [dict(c, kind='receiver') for c in prop_cases if c['sim'] is None and c['topo'] in ('p2_2spans', 'p3_mixed')]
    prop_cases += [dict(c, kind='roundtrip') for c in prop_cases if c.get('kind') != 'receiver' and c['sim'] is None]
    prop_cases += [dict(kind='multiband', net=n, variant=v) for n in ('CL', 'CLS', 'mixed_C_then_CL') for v in range(3)]
    results, stats = engine.run_pool('checks.c01', cases + prop_cases, horizon=3000, chunksize=1)
    rep.absorb(results)
    rep.cov['bound'] = (f'operation sequences of depth <= {depth} over {len(EVENTS)} operations from {len(inits)} '
                        f'initial spectra; plus {len(prop_cases)} recorded real propagations')
    rep.cov['space_size'] = len(inits) * sum(len(EVENTS) ** k for k in range(1, depth + 1))
    rep.cov['exhaustive'] = not stats['budget_hit']
    rep.cov['rule'] = (
        'BFS over all sequences of SpectralInformation bookkeeping operations (attenuate/gain scalar and per-channel, '
        'add_ase x3 magnitudes, add_nli x2, band demux+mux in both merge orders, demux keeping one band, + of a second '
        'comb in both operand orders, select_channels x2, split into bands + noise/gain on one band + merge, or + keep using the '
        'original comb) up to the stated depth; states merged on the exact rational '
        'reference triple per channel; every state checked for sum == total, ratios in [0,1], agreement with the exact '
        'model (1e-9) and 1/GSNR = 1/OSNR_ASE + 1/SNR_NLI. Non-trivial: history has a noise addition followed by an '
        'operation of another kind. Part B: per-element snapshots of real propagations through request.propagate, and all sequences of <= 3 receiver '
        'recomputations (Transceiver.update_snr) from a menu of 4 argument sets: identity and independence of history.')
    rep.assumptions += ['the reference model uses the same float operands as the implementation, in exact arithmetic',
                        'values outside the operation menu are not covered']
    rep.require(len(rep._outcomes) >= 3, f'fewer than 3 ratio patterns observed: {sorted(rep._outcomes)}')
    rep.require(len(rep._nontrivial) >= 100, 'fewer than 100 non-trivial histories')
