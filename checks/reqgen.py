"""reqgen - service documents and micro meshes for the request-level checks (C11, C12, C13, C16, C19)."""
import copy
import itertools

from checks import common as c


def atlas_graphs(nmin=3, nmax=5):
    """all connected simple graphs on nmin..nmax nodes up to isomorphism (networkx graph atlas): list of (n, edges)"""
    import networkx as nx
    out = []
    for g in nx.graph_atlas_g():
        n = g.number_of_nodes()
        if nmin <= n <= nmax and nx.is_connected(g):
            out.append((n, sorted(tuple(sorted(e)) for e in g.edges())))
    return out


SITES = 'ABCDE'


def mesh_topology(n, edges, lengths='equal', style='plain', trx=True):
    """n ROADM sites A.., undirected edges (i, j) -> two directed chains.  lengths: 'equal' (ties), 'distinct', 'shortcut'
    (the direct link of the first edge is much longer), 'tie_minus' / 'tie_plus' (near ties between split fibres).  style: 'plain' fibre, 'ila' (fibre, amplifier, fibre),
    'fused' (fibre, fused, fibre), 'mixed' (cycles through them)."""
    sites = list(SITES[:n])
    links = []
    for k, (i, j) in enumerate(edges):
        if lengths in ('equal', 'asym'):
            L = 80.0
        elif lengths == 'distinct':
            L = 50.0 + 13.0 * k + 7.0 * ((i * 3 + j) % 4)
        elif lengths in ('tie_minus', 'tie_plus'):
            # a two-hop detour is 1 km shorter / longer than the direct first link, and every fibre (or half link) is split by
            # auto-design: a route metric that loses or adds a span length anywhere flips the choice
            L = 320.0 if k == 0 else (159.5 if lengths == 'tie_minus' else 160.5)
        else:
            # long enough that each half of an 'ila' / 'fused' link is itself split by auto-design (> 150 km)
            L = 340.0 if k == 0 else 60.0 + 5.0 * k
        st = style if style != 'mixed' else ['plain', 'ila', 'fused'][k % 3]

        def ch(length):
            if st == 'plain':
                return [c.fiber(length)]
            if st == 'ila':
                return [c.fiber(length / 2), c.edfa(), c.fiber(length / 2)]
            return [c.fiber(length / 2), c.fused(0.5), c.fiber(length / 2)]
        # 'asym': the two fibres of a link have different lengths (every other link), so that the length order of the
        # candidate routes differs between a direction and its opposite
        Lr = L * (0.55 if k % 2 == 0 else 1.6) if lengths == 'asym' else L
        links.append((sites[i], sites[j], ch(L), ch(Lr)))
    return c.build_topology(sites, links, trx=trx)


def request(rid, src, dst, trx_type='Voyager', mode='mode 1', spacing=50e9, bandwidth=100e9, bidir=False, include=None,
            hop='STRICT', n=None, m=None, power=None, nb_channel=None, slots=None, tx_power=None):
    """one path-request entry of a service document; include = list of uids or (uid, hop-type) pairs"""
    te = {'technology': 'flexi-grid', 'trx_type': trx_type, 'trx_mode': mode,
          'effective-freq-slot': slots if slots is not None else [{'N': n, 'M': m}],
          'spacing': spacing, 'max-nb-of-channel': nb_channel, 'output-power': power, 'path_bandwidth': bandwidth}
    r = {'request-id': str(rid), 'source': src, 'destination': dst, 'src-tp-id': src, 'dst-tp-id': dst,
         'bidirectional': bidir, 'path-constraints': {'te-bandwidth': te}}
    if tx_power is not None:
        te['tx_power'] = tx_power
    if include:
        objs = []
        for k, x in enumerate(include):
            uid, h = (x, hop) if isinstance(x, str) else x
            objs.append({'index': k, 'explicit-route-usage': 'route-include-ero',
                         'num-unnum-hop': {'node-id': uid, 'link-tp-id': 'link-tp-id is not used', 'hop-type': h}})
        r['explicit-route-objects'] = {'route-object-include-exclude': objs}
    return r


def service(requests, groups=None):
    """groups: list of lists of request ids that must be disjoint"""
    doc = {'path-request': copy.deepcopy(requests)}
    if groups:
        doc['synchronization'] = [{'synchronization-id': f's{k}', 'svec': {'relaxable': False, 'disjointness': 'node link',
                                                                          'request-id-number': [str(x) for x in g]}}
                                  for k, g in enumerate(groups)]
    return doc


def simple_paths(network, src, dst, cutoff=60):
    """independent DFS over the digraph: every simple path src -> dst as lists of elements (no intermediate transceiver)"""
    from gnpy.core.elements import Transceiver
    out = []
    stack = [(src, [src])]
    while stack:
        node, path = stack.pop()
        if node is dst:
            out.append(path)
            continue
        if len(path) > cutoff:
            continue
        for nxt in network.successors(node):
            if nxt in path:
                continue
            if isinstance(nxt, Transceiver) and nxt is not dst:
                continue
            stack.append((nxt, path + [nxt]))
    return out


def fibre_length(path):
    from gnpy.core.elements import Fiber
    return sum(e.params.length for e in path if isinstance(e, Fiber))


def contains_in_order(path_uids, include):
    """ordered-subsequence test on uids"""
    pos = 0
    for x in include:
        try:
            pos = path_uids.index(x, pos)
        except ValueError:
            return False
    return True


def valid_path(network, path, src_uid, dst_uid):
    """returns a list of problems of a returned path"""
    probs = []
    if not path:
        return ['empty path']
    if path[0].uid != src_uid or path[-1].uid != dst_uid:
        probs.append(f'runs from {path[0].uid} to {path[-1].uid}')
    uids = [e.uid for e in path]
    if len(set(uids)) != len(uids):
        probs.append(f'visits {sorted(u for u in set(uids) if uids.count(u) > 1)[:3]} more than once')
    for a, b in zip(path, path[1:]):
        if not network.has_edge(a, b):
            probs.append(f'uses the non-existent link {a.uid} -> {b.uid}')
            break
    return probs
